#!/bin/bash
# usage: check.sh <property> <quick|thorough>
# Rebuilds the engine, loads /repo's current working tree with the harness overlay, runs the
# solver-based check of one property. Exit 0: held within the stated bounds; 1: VIOLATION
# (replay-confirmed or model-level for concurrent schedules); 2: INCONCLUSIVE.
cd /verif || exit 2
export GOFLAGS=-mod=mod GOPROXY=off GOSUMDB=off GOTOOLCHAIN=local
mkdir -p bin .work evidence
( cd engine && go build -o /verif/bin/gosmt ./cmd/gosmt ) || { echo "INCONCLUSIVE property=$1 reason=engine-build-failed"; exit 2; }
TIER="${2:-quick}"
[ -n "$VERIF_TIER" ] && TIER="$VERIF_TIER"
exec ./bin/gosmt -prop "$1" -tier "$TIER"
