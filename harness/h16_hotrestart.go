//go:build verif

package shmipc

import "encoding/binary"

// C16 (decidable fragment): the epoch / acknowledgement bookkeeping of a hot restart and the
// guarantee that both sides leave the hot-restart state.
// Server side: real Listener.HotRestart, Session.hotRestart, handleHotRestartAck (through the real
// handleEvents), Listener.checkHotRestart, resetState, sessions.onHotRestart, IsHotRestartDone.
// Client side: real handleHotRestart (through handleEvents), the lambda it posts,
// SessionManager.handleEvent, handleSessionManagerHotRestart, SessionManager.checkHotRestart,
// Session.hotRestart(ack); newClientSession is a stub that yields a fresh session carrying the
// requested ids or fails (symbolic). Tickers deliver a bounded number of ticks, then the timeout.

var c16Wire [][]byte

type c16Conn struct{}

func (c *c16Conn) commitRead(n int)                       {}
func (c *c16Conn) setCallback(cb eventConnCallback) error { return nil }
func (c *c16Conn) write(data []byte) error {
	c16Wire = append(c16Wire, data)
	return nil
}
func (c *c16Conn) writev(data ...[]byte) error { return nil }
func (c *c16Conn) close() error                { return nil }

func c16Event(t eventType, epoch uint64) []byte {
	data := make([]byte, headerSize+8)
	binary.BigEndian.PutUint64(data[headerSize:], epoch)
	header(data).encode(uint32(len(data)), 2, t)
	return data
}

func H_C16_server() {
	S := vfShape("sessions", 1, 3)
	l := &Listener{sessions: newSessions()}
	var ss [3]*Session
	c16Wire = nil
	for i := 0; i < S; i++ {
		s := &Session{listener: l, handshakeDone: true, communicationVersion: 2, eventConn: &c16Conn{},
			sendCh: make(chan sendReady, 2), notifyContinueWriteCh: make(chan struct{}, 1)}
		ss[i] = s
		l.sessions.add(s)
	}
	epoch := vfU64()
	if vfShape("handshaking", 0, 1) == 1 {
		// a session that has not finished its handshake makes the request fail: the listener must
		// not stay in the hot-restart state (no watcher is started on this path)
		ss[S-1].handshakeDone = false
		err := l.HotRestart(epoch)
		vfAssert(err == ErrInHandshakeStage, "C16.handshaking-session-rejects-restart")
		vfAssert(l.IsHotRestartDone(), "C16.failed-request-leaves-hot-restart-state")
		vfCover("opt:C16.server.rejected")
		return
	}
	vfAssert(l.HotRestart(epoch) == nil, "C16.hot-restart-starts")
	vfAssert(!l.IsHotRestartDone(), "C16.in-hot-restart-state")
	vfAssert(len(c16Wire) == S && l.hotRestartAckCount == S, "C16.one-request-per-session")
	vfAssert(l.HotRestart(epoch+1) == ErrHotRestartInProgress, "C16.second-request-rejected")
	// acknowledgements: per session none, the right epoch, or a foreign epoch (shape), any order
	acked := 0
	for i := 0; i < S; i++ {
		k := (i + vfShape("rot", 0, S-1)) % S
		switch vfShape("ack", 0, 2) {
		case 1:
			n, err := ss[k].handleEvents(c16Event(typeHotRestartAck, epoch))
			vfAssert(err == nil && n == headerSize+8, "C16.ack-consumed")
			acked++
		case 2:
			other := vfU64()
			vfAssume(other != epoch)
			before := l.hotRestartAckCount
			st := ss[k].state
			n, err := ss[k].handleEvents(c16Event(typeHotRestartAck, other))
			vfAssert(err == nil && n == headerSize+8, "C16.foreign-ack-consumed")
			vfAssert(l.hotRestartAckCount == before && ss[k].state == st && l.epoch == epoch && l.state == hotRestartState, "C16.foreign-epoch-changes-nothing")
		}
		vfAssert(l.hotRestartAckCount >= 0, "C16.ack-count-never-negative")
	}
	vfAssert(l.hotRestartAckCount == S-acked, "C16.ack-count")
	// the watcher (started by HotRestart as a goroutine; run here) ends the hot-restart state
	l.checkHotRestart()
	vfAssert(l.IsHotRestartDone(), "C16.listener-leaves-hot-restart-state")
	if acked == S {
		vfAssert(l.state == hotRestartDoneState, "C16.complete-handover-is-done-state")
	} else {
		vfAssert(l.state == defaultState && l.hotRestartAckCount == 0, "C16.timeout-resets")
		for i := 0; i < S; i++ {
			vfAssert(ss[i].state == defaultState, "C16.timeout-resets-sessions")
		}
	}
	vfCover("C16.server.end")
}

func vfstub_c16_newClientSession(sessionID int, epochID, randID uint64, config *SessionManagerConfig) (*Session, error) {
	if vfBool() {
		return nil, ErrConnectionWriteTimeout
	}
	return &Session{sessionID: sessionID, epochID: epochID, randID: randID, isClient: true, communicationVersion: 2,
		config: &Config{}, dispatcher: &c13Dispatcher{}, streams: map[uint32]*Stream{}, shutdownCh: make(chan struct{}),
		eventConn: &c16Conn{}, sendCh: make(chan sendReady, 2), notifyContinueWriteCh: make(chan struct{}, 1)}, nil
}

func H_C16_client() {
	S := vfShape("sessions", 1, 2)
	d := &c13Dispatcher{}
	sm := &SessionManager{config: &SessionManagerConfig{Config: &Config{}, MaxStreamNum: 2}}
	var old [2]*Session
	c16Wire = nil
	for i := 0; i < S; i++ {
		s := &Session{sessionID: i, isClient: true, manager: sm, dispatcher: d, communicationVersion: 2, config: &Config{},
			eventConn: &c16Conn{}, sendCh: make(chan sendReady, 2), notifyContinueWriteCh: make(chan struct{}, 1),
			streams: map[uint32]*Stream{}, shutdownCh: make(chan struct{})}
		old[i] = s
		p := newStreamPool(2)
		p.session.Store(s)
		sm.pools = append(sm.pools, p)
	}
	epoch := vfU64()
	vfAssume(epoch != 0)
	// restart events arrive per session, in a rotated order, possibly duplicated or with a stale epoch
	E := vfShape("events", 1, 3)
	for j := 0; j < E; j++ {
		k := vfShape("target", 0, S-1)
		ep := epoch
		if vfShape("stale", 0, 1) == 1 {
			ep = vfU64()
			vfAssume(ep != epoch)
		}
		wasHot := sm.state == hotRestartState
		prevEpoch := sm.epoch
		n, err := old[k].handleEvents(c16Event(typeHotRestart, ep))
		vfAssert(err == nil && n == headerSize+8, "C16.restart-event-consumed")
		for i := 0; i < 2; i++ {
			if i < len(d.posted) {
				d.posted[i]()
			}
		}
		d.posted = nil
		if wasHot && ep != prevEpoch {
			vfAssert(sm.epoch == prevEpoch && sm.state == hotRestartState, "C16.stale-epoch-changes-nothing")
		}
	}
	moved := 0
	for i := 0; i < S; i++ {
		if sm.reservePools[i] != nil {
			moved++
			vfAssert(sm.pools[i].Session().epochID == sm.epoch, "C16.new-session-has-announced-epoch")
			vfAssert(sm.reservePools[i].Session() == old[i], "C16.old-session-kept-until-server-lets-go")
			vfAssert(!old[i].IsClosed(), "C16.old-session-still-usable")
		} else {
			vfAssert(sm.pools[i].Session() == old[i], "C16.unmoved-pool-keeps-its-session")
		}
	}
	if sm.state == hotRestartState {
		acksBefore := len(c16Wire)
		// the watcher goroutine the manager started when it entered the state runs now
		vfRunGoroutines()
		vfAssert(sm.state != hotRestartState, "C16.manager-leaves-hot-restart-state")
		if moved == S {
			vfAssert(len(c16Wire) == acksBefore+S, "C16.one-ack-per-session")
		}
	}
	vfCover("C16.client.end")
}
