//go:build verif

package shmipc

import (
	"errors"
	"net"
	"sync"
)

// C19 (listener half): the real newListener / listenLoop with its per-connection goroutine and its
// reference-counting goroutine, listener.Accept, listener.Close, newStreamWrapper and
// streamWrapper.Close over real Session.AcceptStream / Session.Close / Stream.Close, with every
// goroutine as a coroutine (go_policy coro). Environment: the raw unix listener is a stub (Accept
// hands out the connections the harness supplies and fails once it is closed), Server() is a stub
// that yields a prepared server session or fails, streams are put on the session's accept channel
// by the harness (what the session's event loop does when a peer opens one).
//
// Histories: S connections with n streams each surface through Accept exactly once and in order;
// wrappers are closed (also twice) before or after the listener; after Listener.Close Accept fails
// instead of hanging; a session is closed exactly when the listener and all its wrappers let go.
// Window (sync-point hook): Listener.Close lands in front of the k-th synchronisation operation of
// the goroutines that handle a new connection (between the session's creation and its
// registration among others).

type c19Raw struct {
	conns   chan net.Conn
	closeCh chan struct{}
	closed  bool
}

var errC19Closed = errors.New("use of closed network connection")

func (r *c19Raw) Accept() (net.Conn, error) {
	select {
	case c := <-r.conns:
		return c, nil
	case <-r.closeCh:
		return nil, errC19Closed
	}
}
func (r *c19Raw) Close() error {
	if !r.closed {
		r.closed = true
		close(r.closeCh)
	}
	return nil
}
func (r *c19Raw) Addr() net.Addr { return c14Addr{} }

var c19 struct {
	sess    [2]*Session
	served  int
	failing int // the Server() call with this index fails (-1: none)
	d       *c13Dispatcher
}

func vfstub_c19_Server(conn net.Conn, conf *Config) (*Session, error) {
	i := c19.served
	c19.served++
	if i == c19.failing {
		return nil, ErrConnectionWriteTimeout
	}
	return c19.sess[i], nil
}

func vfstub_c19_waitForSend(s *Session, hdr header, body []byte) error {
	if s.shutdown != 0 {
		return s.shutdownErr
	}
	return nil
}

func c19Session(d *c13Dispatcher) *Session {
	bm, err := createBufferManager([]*SizePercentPair{{4, 100}}, "", make([]byte, 116), 0)
	vfAssert(err == nil, "C19.setup")
	return &Session{dispatcher: d, bufferManager: bm, queueManager: &queueManager{recvQueue: createQueue(4), sendQueue: createQueue(4)}, communicationVersion: 2, config: &Config{}, eventConn: &c16Conn{}, netConn: c14NetConn{},
		sendCh: make(chan sendReady, 2), notifyContinueWriteCh: make(chan struct{}, 1), acceptCh: make(chan *Stream, 4),
		streams: map[uint32]*Stream{}, shutdownCh: make(chan struct{}), nextStreamID: 2}
}

func c19Surface(s *Session, id uint32) *Stream {
	st := newStream(s, id)
	s.streamLock.Lock()
	s.streams[id] = st
	s.streamLock.Unlock()
	s.acceptCh <- st
	return st
}

func H_C19_listener() {
	d := &c13Dispatcher{}
	c19.d = d
	c19.served = 0
	c19.failing = -1
	S := vfShape("sessions", 1, 2)
	if vfShape("serverfails", 0, 1) == 1 {
		c19.failing = 0
	}
	for i := 0; i < 2; i++ {
		c19.sess[i] = c19Session(d)
	}
	raw := &c19Raw{conns: make(chan net.Conn, 4), closeCh: make(chan struct{})}
	ln := newListener(raw, 4)
	vfRunGoroutines()
	for i := 0; i < S; i++ {
		raw.conns <- c12NetConn{i}
	}
	vfRunGoroutines()
	// streams surface on the sessions; each comes out of Accept exactly once, in order
	var conns [4]net.Conn
	var owner [4]int
	var strm [4]*Stream
	nc := 0
	for i := 0; i < S; i++ {
		if i == c19.failing {
			continue
		}
		n := vfShape("streams", 0, 2)
		for j := 0; j < n; j++ {
			strm[nc] = c19Surface(c19.sess[i], uint32(3+2*j))
			owner[nc] = i
			nc++
		}
	}
	vfRunGoroutines()
	for k := 0; k < 4; k++ {
		if k < nc {
			c, err := ln.Accept()
			vfAssert(err == nil && c != nil, "C19.accept-returns-a-surfaced-stream")
			conns[k] = c
			if c != nil {
				w, ok := c.(*streamWrapper)
				vfAssert(ok, "C19.accept-returns-the-adapter")
				if ok {
					// connections of different sessions may come in either order; within a session in order
					found := false
					for m := 0; m < 4; m++ {
						if m < nc && strm[m] == w.stream {
							found = true
							strm[m] = nil
						}
					}
					vfAssert(found, "C19.every-stream-surfaces-once")
					// (the k-th accepted connection belongs to whichever session's goroutine got
					// to hand it out first)
					for i := 0; i < 2; i++ {
						if w.stream.session == c19.sess[i] {
							owner[k] = i
						}
					}
				}
			}
		}
	}
	vfAssert(len(ln.backlog) == 0, "C19.nothing-surfaces-twice")
	// wrappers closed before the listener (shape), twice
	early := vfShape("closeEarly", 0, 2)
	for k := 0; k < 4; k++ {
		if k < nc && k < early && conns[k] != nil {
			vfAssert(conns[k].Close() == nil, "C19.conn-close")
			vfAssert(conns[k].Close() == nil, "C19.conn-close-idempotent")
		}
	}
	vfRunGoroutines()
	for i := 0; i < S; i++ {
		if i != c19.failing {
			vfAssert(!c19.sess[i].IsClosed(), "C19.session-lives-while-the-listener-holds-it")
		}
	}
	vfAssert(ln.Close() == nil, "C19.listener-close")
	vfRunGoroutines()
	_, aerr := ln.Accept()
	vfAssert(aerr != nil, "C19.accept-after-close-fails")
	for i := 0; i < S; i++ {
		if i == c19.failing {
			continue
		}
		open := 0
		for k := 0; k < 4; k++ {
			if k < nc && k >= early && owner[k] == i {
				open++
			}
		}
		if open > 0 {
			vfAssert(!c19.sess[i].IsClosed(), "C19.session-lives-while-a-conn-is-open")
		} else {
			vfAssert(c19.sess[i].IsClosed(), "C19.session-ends-when-listener-and-conns-let-go")
		}
	}
	for k := 0; k < 4; k++ {
		if k < nc && k >= early && conns[k] != nil {
			vfAssert(conns[k].Close() == nil, "C19.conn-close-after-listener")
			vfAssert(conns[k].Close() == nil, "C19.conn-close-idempotent")
		}
	}
	vfRunGoroutines()
	for i := 0; i < S; i++ {
		if i != c19.failing {
			vfAssert(c19.sess[i].IsClosed(), "C19.every-session-ends-after-everything-is-closed")
		}
	}
	vfAssert(len(ln.sessions) == 0, "C19.closed-listener-tracks-no-session")
	vfAssert(ln.Close() == nil, "C19.listener-close-idempotent")
	vfCover("C19.listener.end")
}

// Listener.Close while a connection is being taken in.
func H_C19_listenwindow() {
	vfInfeasibleOK()
	// the stopping point is counted over the goroutines the listener starts, in the model's
	// (deterministic) scheduling order; natively those goroutines run in parallel and the count
	// lands elsewhere, so a violation of this family is reported at model level
	vfNote("replay:model-only (stopping point inside goroutines started by the code under test)")
	d := &c13Dispatcher{}
	c19.d = d
	c19.served = 0
	c19.failing = -1
	for i := 0; i < 2; i++ {
		c19.sess[i] = c19Session(d)
	}
	raw := &c19Raw{conns: make(chan net.Conn, 4), closeCh: make(chan struct{})}
	ln := newListener(raw, 4)
	vfRunGoroutines()
	pre := vfShape("streamsBefore", 0, 1)
	if pre == 1 {
		// the peer opened a stream before the session is registered
		c19Surface(c19.sess[0], 3)
	}
	cut := vfShape("cut", 0, 14)
	fired := false
	raw.conns <- c12NetConn{0}
	vfSyncHook(cut, func() {
		fired = true
		ln.Close()
	})
	vfRunGoroutines()
	vfStallHookOff()
	if !fired {
		vfPrune()
	}
	vfRunGoroutines()
	// whatever surfaced is closed by its user
	for k := 0; k < 2; k++ {
		if len(ln.backlog) > 0 {
			c := <-ln.backlog
			c.Close()
		}
	}
	vfRunGoroutines()
	_, aerr := ln.Accept()
	vfAssert(aerr != nil, "C19.accept-after-close-fails")
	if c19.served > 0 {
		vfAssert(c19.sess[0].IsClosed(), "C19.session-taken-in-during-close-is-closed")
	}
	vfAssert(len(ln.sessions) == 0, "C19.closed-listener-tracks-no-session")
	vfCover("C19.listenwindow.end")
}

// C19 (full duplex): net.Conn allows Read and Write on one connection from different goroutines.
// Over the session model: the server's adapter holds received data (one message of 4 bytes, or two),
// then one Read (shorter than, exactly, or longer than what is buffered) and one Write (one slice,
// several slices) run - each on the real code, one after the other, in either order - while the
// engine records every Go-heap location they touch (conflicting-access check, engine/sym/race.go).
// A location written by one of them and touched by the other without a common lock / atomic
// access means that some interleaving inside the two calls changes the outcome.
func H_C19_duplex() {
	w := smSetup()
	w.open()
	var wgB sync.WaitGroup
	wgB.Add(1)
	msgs := vfShape("msgs", 1, 2)
	for i := 0; i < msgs; i++ {
		w.send(0, true, 4)
	}
	w.deliverAB()
	vfAssert(w.b[0].stream != nil, "C19.stream-surfaces-at-the-server")
	cb := newStreamWrapper(w.b[0].stream, nil, nil, &wgB)
	rl := []int{2, 4, 6}[vfShape("rlen", 0, 2)]
	wl := []int{1, 4, 9}[vfShape("wlen", 0, 2)]
	p := make([]byte, rl)
	q := vfBytes(wl)
	first := vfShape("first", 0, 1)
	for k := 0; k < 2; k++ {
		if (k == 0) == (first == 0) {
			vfRaceBegin(1)
			n, err := cb.Read(p)
			vfRaceEnd()
			vfAssert(err == nil && n >= 1 && n <= rl, "C19.Read-returns-1..len(p)")
		} else {
			vfRaceBegin(2)
			n, err := cb.Write(q)
			vfRaceEnd()
			vfAssert(err == nil && n == wl, "C19.Write-delivers-all-of-p")
		}
	}
	vfRaceCheck("C19.read-and-write-share-no-unsynchronised-state")
	vfCover("C19.duplex.end")
}
