//go:build verif

package shmipc

// C07 (operations on different streams of one session at once): streams are independent objects and
// the library lets different goroutines drive different streams of one session. Over the session
// model, one operation on stream 0 and one on stream 1 (write+flush through shared memory or the
// socket fallback, read, close - on the client side, the server side, or one each) run on the real
// code one after the other while the engine records the Go-heap locations they touch
// (conflicting-access check): no pointer-like location is written by one and touched by the other
// without a common lock or atomic access - otherwise some interleaving inside the two calls could
// hand one stream the other's buffers or table entry.
func H_C07_parallel() {
	w := smSetup()
	w.open()
	w.open()
	w.send(0, true, 4)
	w.send(1, true, 4)
	w.deliverAB()
	vfAssert(w.b[0].stream != nil && w.b[1].stream != nil, "C07.parallel.setup")
	if w.b[0].stream == nil || w.b[1].stream == nil {
		return
	}
	do := func(i, op int) {
		switch op {
		case 0: // client writes and flushes
			st := w.a[i].stream
			st.BufferWriter().WriteBytes(vfBytes(5))
			st.Flush(false)
		case 1: // server reads
			w.b[i].stream.BufferReader().ReadBytes(2)
		case 2: // client closes
			w.a[i].stream.Close()
		case 3: // server answers
			st := w.b[i].stream
			st.BufferWriter().WriteBytes(vfBytes(3))
			st.Flush(false)
		default: // server closes
			w.b[i].stream.Close()
		}
	}
	opA := vfShape("op0", 0, 4)
	opB := vfShape("op1", 0, 4)
	vfRaceBegin(1)
	do(0, opA)
	vfRaceEnd()
	vfRaceBegin(2)
	do(1, opB)
	vfRaceEnd()
	vfRaceCheck("C07.operations-on-different-streams-share-no-unsynchronised-state")
	vfCover("C07.parallel.end")
}

// C15 (two callers at once): SessionManager.GetStream and PutBack are meant to be called from many
// goroutines. Two callers each perform one pool operation (get a stream - fresh or pooled -, put
// their stream back, put back and get again) on the real code, one after the other, under the
// conflicting-access check: no pointer-like location or map is touched by both, written by one,
// without a common lock or atomic access.
func H_C15_parallel() {
	w := smSetup()
	pool := newStreamPool(uint32(vfShape("poolcap", 1, 2)))
	pool.session.Store(w.A)
	sm := &SessionManager{pools: []*streamPool{pool}, config: &SessionManagerConfig{Config: &Config{}}}
	// before: `pooled` idle streams in the pool, each caller may hold one
	var held [2]*Stream
	pooled := vfShape("pooled", 0, 2)
	var tmp [2]*Stream
	for i := 0; i < pooled; i++ {
		s, err := sm.GetStream()
		vfAssert(err == nil && s != nil, "C15.get")
		tmp[i] = s
	}
	for k := 0; k < 2; k++ {
		if vfShape("holds", 0, 1) == 1 {
			s, err := sm.GetStream()
			vfAssert(err == nil && s != nil, "C15.get")
			held[k] = s
		}
	}
	for i := 0; i < pooled; i++ {
		sm.PutBack(tmp[i])
	}
	do := func(k, op int) {
		switch op {
		case 0:
			if held[k] != nil {
				vfPrune()
			}
			s, err := sm.GetStream()
			vfAssert(err == nil && s != nil, "C15.get")
			held[k] = s
		case 1:
			if held[k] == nil {
				vfPrune()
			}
			sm.PutBack(held[k])
			held[k] = nil
		default:
			if held[k] == nil {
				vfPrune()
			}
			sm.PutBack(held[k])
			s, err := sm.GetStream()
			vfAssert(err == nil && s != nil, "C15.get")
			held[k] = s
		}
	}
	op0 := vfShape("op0", 0, 2)
	op1 := vfShape("op1", 0, 2)
	vfRaceBegin(1)
	do(0, op0)
	vfRaceEnd()
	vfRaceBegin(2)
	do(1, op1)
	vfRaceEnd()
	vfAssert(held[0] == nil || held[0] != held[1], "C15.not-handed-to-two-callers")
	vfRaceCheck("C15.pool-operations-of-two-callers-share-no-unsynchronised-state")
	vfCover("C15.parallel.end")
}
