//go:build verif

package shmipc

func H_dbg1() {
	w := flSetup(3, 3)
	a, b := w.views[0], w.views[1]
	s1, _ := a.pop()
	s2, _ := b.pop()
	w.held[0][0] = s1
	w.held[1][0] = s2
	for t := 0; t < 2; t++ {
		for k := 0; k < 1; k++ {
			if s := w.held[t][k]; s != nil {
				a.push(s)
			}
		}
	}
	vfAssert(*a.size == 3, "dbg.size")
	vfCover("dbg.end")
}

func H_dbg2() {
	w := flSetup(3, 3)
	a := w.views[0]
	vfShared(w.mem, 4)
	vfShared(w.ghost, 4)
	vfSpawn(func() {
		s, _ := a.pop()
		w.held[0][0] = s
	})
	vfJoin()
	vfAssert(*a.size == 2, "dbg.size2")
	s := w.held[0][0]
	vfAssert(s != nil, "dbg.held")
	a.push(s)
	vfAssert(*a.size == 3, "dbg.size3")
	vfCover("dbg.end")
}

func H_dbg3() {
	w := flSetup(3, 3)
	a := w.views[0]
	vfShared(w.mem, 4)
	vfShared(w.ghost, 4)
	vfSpawn(func() { w.step(0, 0, w.views[0]) })
	vfSpawn(func() { w.step(1, 0, w.views[1]) })
	vfJoin()
	vfAssume(w.ops[0][0].isPop && w.ops[0][0].ok && w.ops[1][0].isPop && w.ops[1][0].ok)
	vfAssert(w.ops[0][0].inside, "dbg.inside0")
	vfAssert(w.ops[0][0].fresh, "dbg.fresh0")
	vfAssert(w.heldSig[0][0] == 0 || w.heldSig[0][0] != 0, "dbg.sig")
	vfAssert(*a.size == 1, "dbg.size1")
	vfAssert(w.held[0][0] != nil, "dbg.held0")
	vfAssert(w.held[1][0] != nil, "dbg.held1")
	a.push(w.held[0][0])
	vfAssert(*a.size == 2, "dbg.size2")
	a.push(w.held[1][0])
	vfAssert(*a.size == 3, "dbg.size3")
	vfCover("dbg.end")
}

var dbgC [8]bool

func H_dbg4() {
	w := flSetup(3, 3)
	l := w.views[0]
	vfShared(w.mem, 4)
	vfShared(w.ghost, 4)
	vfSpawn(func() {
		s, err := l.pop()
		if err != nil {
			return
		}
		off := s.offsetInShm - l.bufferRegionOffsetInShm
		dbgC[0] = off%flStride == 0 && off < uint32(w.n*flStride)
		dbgC[1] = s.cap == flCap && len(s.data) == flCap && s.isFromShm
		dbgC[2] = vfSameObject(s.data, w.mem)
		dbgC[3] = vfOffsetOf(s.data) == int(off)+bufferListHeaderSize+bufferHeaderSize
		dbgC[4] = vfOffsetOf(s.bufferHeader) == int(off)+bufferListHeaderSize && len(s.bufferHeader) == bufferHeaderSize
		dbgC[5] = true
	})
	vfJoin()
	vfAssume(dbgC[5])
	vfAssert(dbgC[0], "dbg.c0")
	vfAssert(dbgC[1], "dbg.c1")
	vfAssert(dbgC[2], "dbg.c2")
	vfAssert(dbgC[3], "dbg.c3")
	vfAssert(dbgC[4], "dbg.c4")
	vfCover("dbg.end")
}

func H_dbg5() {
	w := flSetup(3, 3)
	a, b := w.views[0], w.views[1]
	vfShared(w.mem, flStride)
	vfSpawn(func() {
		s, _ := a.pop()
		w.held[0][0] = s
	})
	vfSpawn(func() {
		s1, _ := b.pop()
		s2, _ := b.pop()
		if s1 != nil {
			b.push(s1)
		}
		w.held[1][0] = s2
	})
	vfJoin()
	n := 0
	for t := 0; t < 2; t++ {
		if s := w.held[t][0]; s != nil {
			n++
			a.push(s)
		}
	}
	vfAssert(*a.size == 3, "dbg.size3")
	vfAssert(computeFreeSliceNum(a) == 3, "dbg.walk")
	vfCover("dbg.end")
}

func H_dbg6() {
	ev := pollingEventWithVersion[2]
	vfAssert(len(ev) == headerSize, "dbg6.len")
	vfAssert(header(ev).Magic() == magicNumber, "dbg6.magic")
	vfAssert(header(ev).Version() == 2, "dbg6.version")
	vfAssert(header(ev).MsgType() == typePolling, "dbg6.type")
	vfAssert(checkEventValid(header(ev)) == nil, "dbg6.valid")
	vfAssert(len(protocolHandlers) > int(typePolling), "dbg6.handlers")
	vfAssert(protocolHandlers[typePolling] != nil, "dbg6.handler-nonnil")
	vfCover("dbg6.end")
}
