//go:build verif

package shmipc

import (
	syscall "golang.org/x/sys/unix"
)

// C03: both processes derive the same memory layout from any configuration.

var c03Lens = [...]int{0, 1, 7, 8, 9, 43, 44, 45, 64, 65, 80, 100, 116, 117, 160, 200, 248, 300}

// (b) buffer manager layout on small memories (length = shape), 1..3 (size, percent) pairs with
// fully symbolic uint32 sizes and percents (sizes bounded by the mapping's capacity, the rule
// VerifyConfig enforces), sorted or not, arbitrary previous memory contents.
func H_C03_buffers() { c03Buffers(false) }

// H_C03_sized: the same checks with slice sizes and percents taken from small lists (shapes); the
// previous memory contents and the examined slot stay symbolic. Two and three classes with symbolic
// sizes or percents on the larger memory lengths are not decided within 20 min (symbolic slot
// counts drive the creation loops); this grid covers those lengths with concrete configurations.
func H_C03_sized() { c03Buffers(true) }

var c03Sizes = [...]uint32{1, 4, 8, 20, 44}
var c03Pcts = [...]uint32{0, 1, 10, 34, 50, 90, 99}

func c03Buffers(sized bool) {
	L := c03Lens[vfShape("memlen", 0, len(c03Lens)-1)]
	np := vfShape("pairs", 1, 3)
	mem := make([]byte, L)
	vfHavocBytes(mem)
	var pairs []*SizePercentPair
	pctSum := uint32(0)
	for i := 0; i < np; i++ {
		p := &SizePercentPair{Size: vfU32(), Percent: vfU32()}
		if sized {
			p.Size = c03Sizes[vfShape("size", 0, len(c03Sizes)-1)]
			if p.Size > uint32(L) {
				vfPrune()
			}
			// percents: every class but the last from a list, the last one the remainder (or one
			// more, so that the sum is wrong)
			if i < np-1 {
				p.Percent = c03Pcts[vfShape("pct", 0, len(c03Pcts)-1)]
				pctSum += p.Percent
				if pctSum > 100 {
					vfPrune()
				}
			} else {
				p.Percent = 100 - pctSum + uint32(vfShape("off", 0, 1))
			}
		}
		vfAssume(p.Size <= uint32(L))
		pairs = append(pairs, p)
	}
	bm, err := createBufferManager(pairs, "", mem, 0)
	if err != nil {
		vfAssert(bm == nil, "C03.error-returns-no-manager")
		vfCover("opt:C03.buffers.create-fails")
		return
	}
	vfAssert(bm != nil && len(bm.lists) == np, "C03.one-class-per-pair")
	// a symbolic slot of a symbolic class lies inside the mapping, behind its headers
	var lo, hi [3]int64
	for k := 0; k < np; k++ {
		l := bm.lists[k]
		n := int64(*l.cap)
		c := int64(*l.capPerBuffer)
		vfAssert(n >= 1 && c >= 1, "C03.class-nonempty")
		vfAssert(uint32(c) == pairs[k].Size, "C03.class-capacity-as-configured")
		base := int64(l.bufferRegionOffsetInShm)
		vfAssert(base == int64(l.offsetInShm)+bufferListHeaderSize, "C03.region-behind-list-header")
		vfAssert(int64(l.offsetInShm) >= bufferManagerHeaderSize, "C03.list-behind-manager-header")
		vfAssert(int64(len(l.bufferRegion)) == n*(c+bufferHeaderSize), "C03.region-length")
		i := int64(vfU32())
		vfAssume(i < n)
		s0 := base + i*(c+bufferHeaderSize)
		s1 := s0 + bufferHeaderSize + c
		vfAssert(s0 >= base && s1 <= int64(L), "C03.slot-inside-mapping")
		lo[k], hi[k] = base, base+n*(c+bufferHeaderSize)
		vfAssert(hi[k] <= int64(L), "C03.class-inside-mapping")
		if k > 0 {
			vfAssert(lo[k] >= hi[k-1]+bufferListHeaderSize, "C03.classes-disjoint-and-headers-kept")
		}
		// free chain as created: every slot free, in order
		vfAssert(*l.size == int32(n) && *l.head == 0 && int64(*l.tail) == (n-1)*(c+bufferHeaderSize), "C03.created-list-header")
	}
	// the peer reconstructs exactly the same classes
	peer, perr := mappingBufferManager("", mem, 0)
	vfAssert(perr == nil && peer != nil, "C03.peer-mapping-succeeds")
	if perr != nil {
		return
	}
	vfAssert(len(peer.lists) == np, "C03.peer-same-class-count")
	if len(peer.lists) != np {
		return
	}
	for k := 0; k < np; k++ {
		a, b := bm.lists[k], peer.lists[k]
		vfAssert(*b.cap == *a.cap && *b.capPerBuffer == *a.capPerBuffer, "C03.peer-same-capacities")
		vfAssert(b.bufferRegionOffsetInShm == a.bufferRegionOffsetInShm && b.offsetInShm == a.offsetInShm, "C03.peer-same-offsets")
		vfAssert(len(b.bufferRegion) == len(a.bufferRegion), "C03.peer-same-region-length")
		vfAssert(vfOffsetIn(b.bufferRegion, mem) == vfOffsetIn(a.bufferRegion, mem), "C03.peer-same-region")
	}
	vfAssert(peer.minSliceSize == bm.minSliceSize && peer.maxSliceSize == bm.maxSliceSize, "C03.peer-same-min-max")
	vfCover("opt:C03.buffers.laid-out")
}

// (c) the IO queue pair through the real create/mapping queue managers (memfd back-end) over an
// OS model: MemfdCreate / Ftruncate / Fstat / Mmap are harness stubs; mapping the same fd yields the
// same region (the kernel guarantee that is assumed, not checked).
type c03File struct {
	size int
	mem  []byte
}

var c03Files [4]c03File
var c03NFiles int

func vfstub_MemfdCreate(name string, flags int) (int, error) {
	fd := 100 + c03NFiles
	c03NFiles++
	return fd, nil
}

func vfstub_Ftruncate(fd int, length int64) error {
	f := &c03Files[fd-100]
	f.size = int(length)
	f.mem = make([]byte, int(length))
	vfHavocBytes(f.mem)
	return nil
}

func vfstub_Fstat(fd int, st *syscall.Stat_t) error {
	st.Size = int64(c03Files[fd-100].size)
	return nil
}

func vfstub_Mmap(fd int, offset int64, length int, prot int, flags int) ([]byte, error) {
	f := &c03Files[fd-100]
	if length > f.size || length < 0 {
		return nil, syscall.EINVAL
	}
	return f.mem[:length], nil
}

func H_C03_queues() {
	c := vfShape("qcap", 1, 5)
	c03NFiles = 0
	a, err := createQueueManagerWithMemFd("q", uint32(c))
	vfAssert(err == nil && a != nil, "C03.queue-create")
	b, err2 := mappingQueueManagerMemfd("q", a.memFd)
	vfAssert(err2 == nil && b != nil, "C03.queue-mapping")
	vfAssert(a.sendQueue.cap == int64(c) && a.recvQueue.cap == int64(c), "C03.queue-cap-creator")
	vfAssert(b.sendQueue.cap == int64(c) && b.recvQueue.cap == int64(c), "C03.queue-cap-peer")
	// extents: the two queues are disjoint halves inside the mapping
	sOff := vfOffsetIn(a.sendQueue.queueBytesOnMemory, a.mem)
	rOff := vfOffsetIn(a.recvQueue.queueBytesOnMemory, a.mem)
	qlen := c * queueElementLen
	vfAssert(sOff >= queueHeaderLength && rOff >= sOff+qlen+queueHeaderLength && rOff+qlen <= len(a.mem), "C03.queue-extents")
	// cross-wiring: what A sends, B receives, and vice versa, element for element
	e1 := queueElement{vfU32(), vfU32(), vfU32()}
	e2 := queueElement{vfU32(), vfU32(), vfU32()}
	vfAssert(a.sendQueue.put(e1) == nil, "C03.put-a")
	vfAssert(b.sendQueue.put(e2) == nil, "C03.put-b")
	g1, er1 := b.recvQueue.pop()
	g2, er2 := a.recvQueue.pop()
	vfAssert(er1 == nil && g1 == e1, "C03.a-send-is-b-recv")
	vfAssert(er2 == nil && g2 == e2, "C03.b-send-is-a-recv")
	vfAssert(a.sendQueue.isEmpty() && b.sendQueue.isEmpty(), "C03.cursors-shared")
	vfAssert(vfOffsetIn(b.recvQueue.queueBytesOnMemory, b.mem) == sOff && vfOffsetIn(b.sendQueue.queueBytesOnMemory, b.mem) == rOff, "C03.same-cells")
	vfCover("C03.queues.end")
}
