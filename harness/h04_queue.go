//go:build verif

package shmipc

import (
	"sync/atomic"
	"unsafe"
)

// C04 sequential step: from an arbitrary valid ring (any cursor phase, any fill, arbitrary slot
// contents) one put and one pop behave like a FIFO of capacity c: put succeeds iff there is room,
// reports ErrQueueFull iff full; pop returns the oldest element intact, errQueueEmpty iff empty.
func H_C04_step() {
	c := vfShape("cap", 1, 8)
	mem := make([]byte, queueHeaderLength+c*queueElementLen)
	prod := createQueueFromBytes(mem, uint32(c))
	cons := mappingQueueFromBytes(mem)
	vfAssert(prod.cap == int64(c) && cons.cap == int64(c), "C04.step.cap")
	vfAssert(len(prod.queueBytesOnMemory) == c*queueElementLen, "C04.step.extent")
	h0 := int64(vfU64())
	fill := int64(vfShape("fill", 0, c))
	vfAssume(h0 >= 0 && h0 <= 1<<62)
	vfHavocBytes(mem[queueHeaderLength:])
	*prod.head, *prod.tail = h0, h0+fill
	// model: the element at logical position i lives in slot i%c
	oldest := queueElement{}
	if fill > 0 {
		off := (h0 % int64(c)) * queueElementLen
		oldest.seqID = *(*uint32)(unsafe.Pointer(&mem[queueHeaderLength+off]))
		oldest.offsetInShmBuf = *(*uint32)(unsafe.Pointer(&mem[queueHeaderLength+off+4]))
		oldest.status = *(*uint32)(unsafe.Pointer(&mem[queueHeaderLength+off+8]))
	}
	vfAssert(cons.size() == fill, "C04.step.size")
	e := queueElement{vfU32(), vfU32(), vfU32()}
	err := prod.put(e)
	if fill < int64(c) {
		vfAssert(err == nil, "C04.step.put-accepts-when-room")
		vfAssert(cons.size() == fill+1, "C04.step.size-after-put")
		if fill == 0 {
			oldest = e
		}
	} else {
		vfAssert(err == ErrQueueFull, "C04.step.full-only-when-full")
		vfAssert(cons.size() == fill, "C04.step.failed-put-changes-nothing")
	}
	vfAssert(prod.isFull() == (cons.size() == int64(c)), "C04.step.isFull")
	got, perr := cons.pop()
	vfAssert(perr == nil, "C04.step.pop-nonempty")
	vfAssert(got == oldest, "C04.step.fifo-intact")
	// drain: the remaining elements come out, then empty
	n := cons.size()
	for i := 0; i < c; i++ {
		g2, e2 := cons.pop()
		if int64(i) < n {
			vfAssert(e2 == nil, "C04.step.drain")
			if int64(i) == n-1 && fill < int64(c) && fill > 0 {
				vfAssert(g2 == e, "C04.step.newest-last")
			}
		} else {
			vfAssert(e2 == errQueueEmpty, "C04.step.empty-only-when-empty")
		}
	}
	vfAssert(cons.isEmpty(), "C04.step.isEmpty")
	vfCover("C04.step.end")
}

// C04 concurrent: P producers x p puts (producer view, sharing its mutex) against the single
// consumer (mapping view = peer process) and a monitor, under a symbolic schedule.
func H_C04_mpsc() {
	c := vfShape("cap", 1, 3)
	P := vfShape("producers", 1, 3)
	p := vfShape("puts", 1, 2)
	mem := make([]byte, queueHeaderLength+c*queueElementLen)
	prod := createQueueFromBytes(mem, uint32(c))
	cons := mappingQueueFromBytes(mem)
	// cursor phase: every residue modulo the capacity, at small magnitude (the full 64-bit range of
	// the cursors is covered by H_C04_step; only the phase matters to the interleavings)
	h0 := int64(vfU8())
	*prod.head, *prod.tail = h0, h0
	ghost := make([]byte, 8)
	tick := (*uint32)(unsafe.Pointer(&ghost[0]))
	vfShared(mem, 4)
	vfShared(ghost, 4)

	const maxP, maxp = 3, 2
	var elems [maxP][maxp]queueElement
	var ok [maxP][maxp]bool
	var t0, t1 [maxP][maxp]uint32
	for t := 0; t < P; t++ {
		for k := 0; k < p; k++ {
			elems[t][k] = queueElement{uint32(t*8 + k + 1), vfU32(), vfU32()}
		}
	}
	for t := 0; t < P; t++ {
		t := t
		vfSpawn(func() {
			for k := 0; k < p; k++ {
				t0[t][k] = atomic.AddUint32(tick, 1)
				err := prod.put(elems[t][k])
				t1[t][k] = atomic.AddUint32(tick, 1)
				if err == nil {
					ok[t][k] = true
				} else {
					vfAssert(err == ErrQueueFull, "C04.put-error-kind")
				}
			}
		})
	}
	var got [maxP*maxp + 1]queueElement
	var pt0, pt1 [maxP*maxp + 1]uint32
	npop := 0
	vfSpawn(func() {
		for i := 0; i < P*p; i++ {
			a := atomic.AddUint32(tick, 1)
			e, err := cons.pop()
			b := atomic.AddUint32(tick, 1)
			if err == nil {
				got[npop] = e
				pt0[npop], pt1[npop] = a, b
				npop++
			} else {
				vfAssert(err == errQueueEmpty, "C04.pop-error-kind")
			}
		}
	})
	vfSpawn(func() { // monitor: at an arbitrary moment the ring is within bounds
		vfAtomicBegin()
		h := atomic.LoadInt64(cons.head)
		tl := atomic.LoadInt64(cons.tail)
		vfAtomicEnd()
		vfAssert(tl-h >= 0 && tl-h <= int64(c), "C04.outstanding-bounded")
	})
	vfJoin()
	// drain what is left, sequentially, on the final memory
	nconc := npop
	for i := 0; i < c; i++ {
		e, err := cons.pop()
		if err == nil {
			got[npop] = e
			npop++
		}
	}
	vfAssert(cons.isEmpty(), "C04.drained")
	nok := 0
	for t := 0; t < P; t++ {
		for k := 0; k < p; k++ {
			if ok[t][k] {
				nok++
			}
		}
	}
	vfAssert(npop == nok, "C04.every-enqueued-element-delivered-once")
	for i := 0; i < P*p+1; i++ {
		if i >= npop {
			break
		}
		id := got[i].seqID
		vfAssert(id >= 1 && int(id-1)/8 < P && int(id-1)%8 < p, "C04.delivered-element-was-enqueued")
		t, k := int(id-1)/8, int(id-1)%8
		vfAssert(ok[t][k], "C04.delivered-element-was-accepted")
		vfAssert(got[i] == elems[t][k], "C04.intact")
		for j := 0; j < i; j++ {
			jd := got[j].seqID
			vfAssert(jd != id, "C04.exactly-once")
			tj, kj := int(jd-1)/8, int(jd-1)%8
			if tj == t {
				vfAssert(kj < k, "C04.per-producer-order")
			}
			// any two non-overlapping enqueues come out in that order
			vfAssert(!(t1[t][k] < t0[tj][kj]), "C04.non-overlapping-order")
		}
	}
	// a put that reported full: the ring can really have been full during the call
	for t := 0; t < P; t++ {
		for k := 0; k < p; k++ {
			if !ok[t][k] {
				started, popped := 0, 0
				for t2 := 0; t2 < P; t2++ {
					for k2 := 0; k2 < p; k2++ {
						if ok[t2][k2] && t0[t2][k2] < t1[t][k] {
							started++
						}
					}
				}
				for i := 0; i < P*p; i++ {
					if i < nconc && pt1[i] < t0[t][k] {
						popped++
					}
				}
				vfAssert(started-popped >= c, "C04.full-only-when-full")
			}
		}
	}
	vfCover("C04.mpsc.end")
	if nconc == P*p {
		vfCover("C04.mpsc.all-popped-concurrently")
	}
}
