//go:build verif

package shmipc

import (
	"net"
	"time"

	syscall "golang.org/x/sys/unix"
)

// C14 (containment + resource census over an OS model, sequential): two sessions whose shared
// memory is created by the real initMemManager (memfd back-end) and mapped by the real
// mappingQueueManagerMemfd / getGlobalBufferManagerWithMemFd, traffic in flight, then the peer dies
// (connection reports remote close) or a side calls Close at a shape-chosen point; the posted
// teardown lambdas run. Oracle: nothing panics, both sessions end closed, Close is idempotent,
// streams fail their later calls and get exactly one close callback, and the OS model's census
// (descriptors, mappings) is back to what it was.

type osModel struct {
	files   [6]c03File
	nfiles  int
	fdOpen  [6]int // open descriptors per file
	mapped  [6]int // live mappings per file
	mapOf   [8][]byte
	mapFile [8]int
	nmaps   int
}

var c14OS osModel

func vfstub14_MemfdCreate(name string, flags int) (int, error) {
	o := &c14OS
	fd := 100 + o.nfiles
	o.fdOpen[o.nfiles] = 1
	o.nfiles++
	return fd, nil
}
func vfstub14_Ftruncate(fd int, length int64) error {
	f := &c14OS.files[fd-100]
	f.size = int(length)
	f.mem = make([]byte, int(length))
	return nil
}
func vfstub14_Fstat(fd int, st *syscall.Stat_t) error {
	st.Size = int64(c14OS.files[fd-100].size)
	return nil
}
func vfstub14_Mmap(fd int, offset int64, length int, prot int, flags int) ([]byte, error) {
	o := &c14OS
	f := &o.files[fd-100]
	if length > f.size || length < 0 {
		return nil, syscall.EINVAL
	}
	o.mapped[fd-100]++
	m := f.mem[:length]
	o.mapOf[o.nmaps] = m
	o.mapFile[o.nmaps] = fd - 100
	o.nmaps++
	return m, nil
}
func vfstub14_Munmap(b []byte) error {
	o := &c14OS
	for i := 0; i < 8; i++ {
		if i < o.nmaps && o.mapFile[i] >= 0 && vfSameObject(o.mapOf[i], b) {
			o.mapped[o.mapFile[i]]--
			o.mapFile[i] = -1
			return nil
		}
	}
	vfAssert(false, "C14.munmap-of-unknown-mapping")
	return syscall.EINVAL
}
func vfstub14_Close(fd int) error {
	if fd < 100 || fd >= 100+c14OS.nfiles {
		return syscall.EBADF
	}
	c14OS.fdOpen[fd-100]--
	vfAssert(c14OS.fdOpen[fd-100] >= 0, "C14.descriptor-closed-twice")
	return nil
}

type c14Addr struct{}

func (c14Addr) Network() string { return "unix" }
func (c14Addr) String() string  { return "x" }

type c14NetConn struct{}

func (c14NetConn) Read(b []byte) (int, error)         { return 0, nil }
func (c14NetConn) Write(b []byte) (int, error)        { return len(b), nil }
func (c14NetConn) Close() error                       { return nil }
func (c14NetConn) LocalAddr() net.Addr                { return c14Addr{} }
func (c14NetConn) RemoteAddr() net.Addr               { return c14Addr{} }
func (c14NetConn) SetDeadline(t time.Time) error      { return nil }
func (c14NetConn) SetReadDeadline(t time.Time) error  { return nil }
func (c14NetConn) SetWriteDeadline(t time.Time) error { return nil }

type c14CB struct{ local, remote, data int }

func (c *c14CB) OnData(r BufferReader) {
	c.data++
	n := r.Len()
	r.ReadBytes(n)
	r.ReleasePreviousRead()
}
func (c *c14CB) OnLocalClose()  { c.local++ }
func (c *c14CB) OnRemoteClose() { c.remote++ }

func H_C14_close() {
	c14OS = osModel{}
	smWireAB, smWireBA = nil, nil
	debugMode = true
	cfg := func() *Config {
		return &Config{MemMapType: MemMapTypeMemFd, ShareMemoryBufferCap: 248, QueueCap: 2,
			ShareMemoryPathPrefix: "p", QueuePath: "q",
			BufferSliceSizes: []*SizePercentPair{{4, 50}, {8, 50}}}
	}
	dA, dB := &c13Dispatcher{}, &c13Dispatcher{}
	A := &Session{isClient: true, config: cfg(), communicationVersion: 3, eventConn: &smConn{wire: &smWireAB}, dispatcher: dA,
		netConn: c14NetConn{}, streams: map[uint32]*Stream{}, sendCh: make(chan sendReady, 4), notifyContinueWriteCh: make(chan struct{}, 1),
		acceptCh: make(chan *Stream, 4), shutdownCh: make(chan struct{})}
	vfAssert(A.initMemManager() == nil, "C14.client-creates-shared-memory")
	B := &Session{isClient: false, config: cfg(), communicationVersion: 3, eventConn: &smConn{wire: &smWireBA}, dispatcher: dB,
		netConn: c14NetConn{}, streams: map[uint32]*Stream{}, sendCh: make(chan sendReady, 4), notifyContinueWriteCh: make(chan struct{}, 1),
		acceptCh: make(chan *Stream, 4), shutdownCh: make(chan struct{})}
	// the server received both descriptors over the socket (dup'ed by the kernel): model them as
	// additional open references of the same files
	c14OS.fdOpen[0]++
	c14OS.fdOpen[1]++
	qm, err := mappingQueueManagerMemfd("q", A.queueManager.memFd)
	vfAssert(err == nil, "C14.server-maps-queue")
	B.queueManager = qm
	bm, err2 := getGlobalBufferManagerWithMemFd("p"+bufferPathSuffix, A.bufferManager.memFd, 0, false, nil)
	vfAssert(err2 == nil, "C14.server-maps-buffers")
	B.bufferManager = bm
	vfAssert(vfSameObject(B.queueManager.mem, A.queueManager.mem), "C12.both-ends-map-the-same-queue-memory")
	vfAssert(vfSameObject(B.bufferManager.mem, A.bufferManager.mem), "C12.both-ends-map-the-same-buffer-memory")

	// traffic: one stream, one message in flight or delivered, callbacks or not
	sa, _ := A.OpenStream()
	cbA := &c14CB{}
	useCB := vfShape("callbacks", 0, 1) == 1
	if useCB {
		sa.SetCallbacks(cbA)
	}
	sa.BufferWriter().WriteBytes(vfBytes(3))
	vfAssert(sa.Flush(false) == nil, "C14.flush")
	step := vfShape("crashAt", 0, 2)
	deliver := func() {
		for i := range smWireAB {
			B.handleEvents(smWireAB[i])
		}
		smWireAB = nil
	}
	if step >= 1 {
		deliver()
	}
	var sb *Stream
	if len(B.acceptCh) > 0 {
		sb, _ = B.AcceptStream()
	}
	if step >= 2 && sb != nil {
		sb.BufferReader().ReadBytes(2)
	}
	// the failure: the peer of A dies (A's connection reports remote close), or A is closed locally
	switch vfShape("how", 0, 2) {
	case 0:
		A.onRemoteClose()
	case 1:
		vfAssert(A.Close() == nil, "C14.close")
	default:
		A.exitErr(ErrConnectionWriteTimeout)
	}
	vfAssert(A.IsClosed(), "C14.session-becomes-closed")
	vfAssert(A.Close() == nil, "C14.close-idempotent")
	for i := 0; i < 2; i++ {
		if i < len(dA.posted) {
			dA.posted[i]()
		}
	}
	vfAssert(len(dA.posted) == 1, "C14.teardown-posted-once")
	// the streams of the dead session fail their calls and were told exactly once
	_, rerr := sa.BufferReader().ReadBytes(1)
	vfAssert(rerr != nil, "C14.pending-and-later-reads-fail")
	sa.BufferWriter().WriteBytes(vfBytes(1))
	vfAssert(sa.Flush(false) != nil, "C14.later-flush-fails")
	if useCB {
		vfAssert(cbA.local+cbA.remote == 1, "C14.exactly-one-close-callback")
	}
	_, oerr := A.OpenStream()
	vfAssert(oerr != nil, "C14.no-new-stream-on-dead-session")
	// the other end notices (its connection breaks too) and closes
	B.onRemoteClose()
	vfAssert(B.IsClosed(), "C14.peer-session-becomes-closed")
	for i := 0; i < 2; i++ {
		if i < len(dB.posted) {
			dB.posted[i]()
		}
	}
	if sb != nil {
		_, e2 := sb.BufferReader().ReadBytes(3)
		vfAssert(e2 != nil, "C14.peer-stream-fails-after-session-death")
	}
	// census: nothing the sessions created is left
	for i := 0; i < 2; i++ {
		vfAssert(c14OS.mapped[i] == 0, "C14.no-mapping-left")
		vfAssert(c14OS.fdOpen[i] == 0, "C14.no-descriptor-left")
	}
	vfCover("C14.close.end")
}

// ---------------------------------------------------------------------------------------------
// C14 (deferred work of the real dispatcher): session teardown and descriptor closing are posted to
// the event loop as lambdas; one that is lost or run twice is a descriptor that is never closed or
// closed twice. Lambdas posted while a batch runs (by the running lambda here - for post/runLambda,
// which hand over under one lock, the same as a post by another goroutine between two lambdas)
// must run exactly once in a later batch.
type c14L struct {
	d       *epollDispatcher
	ran     [16]int
	nposted int
}

func (l *c14L) post(depth int) {
	id := l.nposted
	l.nposted++
	l.d.post(func() {
		l.ran[id]++
		if depth == 0 {
			c := vfShape("children", 0, 3)
			for j := 0; j < c; j++ {
				l.post(depth + 1)
			}
		}
	})
}

func H_C14_lambdas() {
	l := &c14L{d: newEpollDispatcher()}
	n0 := vfShape("initial", 1, 3)
	for i := 0; i < n0; i++ {
		l.post(0)
	}
	for r := 0; r < 3; r++ {
		l.d.runLambda()
	}
	for i := 0; i < 16; i++ {
		if i < l.nposted {
			vfAssert(l.ran[i] == 1, "C14.every-posted-lambda-runs-exactly-once")
		}
	}
	vfAssert(len(l.d.pendingLambda) == 0, "C14.no-lambda-left-pending")
	vfCover("C14.lambdas.end")
}

// ---------------------------------------------------------------------------------------------
// C14 (a callback that waits for more data when the session dies): go_policy coro. The client's
// stream is in callback mode; its OnData asks for more bytes than have arrived and parks in the
// read. Then the peer dies / the session is closed / the connection fails. The teardown lambda
// (which waits for the callback goroutine) must come back, the parked read must fail, the close
// callback runs once, and the census of the OS model is clean.
type c14CBWait struct {
	local, remote, data int
	readErr             error
	returned            bool
}

func (c *c14CBWait) OnData(r BufferReader) {
	c.data++
	n := r.Len()
	_, c.readErr = r.ReadBytes(n + 2) // waits for two more bytes that never come
	c.returned = true
}
func (c *c14CBWait) OnLocalClose()  { c.local++ }
func (c *c14CBWait) OnRemoteClose() { c.remote++ }

func H_C14_cbwait() {
	c14OS = osModel{}
	smWireAB, smWireBA = nil, nil
	debugMode = true
	cfg := func() *Config {
		return &Config{MemMapType: MemMapTypeMemFd, ShareMemoryBufferCap: 248, QueueCap: 2,
			ShareMemoryPathPrefix: "p", QueuePath: "q",
			BufferSliceSizes: []*SizePercentPair{{4, 50}, {8, 50}}}
	}
	dA, dB := &c13Dispatcher{}, &c13Dispatcher{}
	A := &Session{isClient: true, config: cfg(), communicationVersion: 3, eventConn: &smConn{wire: &smWireAB}, dispatcher: dA,
		netConn: c14NetConn{}, streams: map[uint32]*Stream{}, sendCh: make(chan sendReady, 4), notifyContinueWriteCh: make(chan struct{}, 1),
		acceptCh: make(chan *Stream, 4), shutdownCh: make(chan struct{})}
	vfAssert(A.initMemManager() == nil, "C14.client-creates-shared-memory")
	B := &Session{isClient: false, config: cfg(), communicationVersion: 3, eventConn: &smConn{wire: &smWireBA}, dispatcher: dB,
		netConn: c14NetConn{}, streams: map[uint32]*Stream{}, sendCh: make(chan sendReady, 4), notifyContinueWriteCh: make(chan struct{}, 1),
		acceptCh: make(chan *Stream, 4), shutdownCh: make(chan struct{})}
	c14OS.fdOpen[0]++
	c14OS.fdOpen[1]++
	qm, err := mappingQueueManagerMemfd("q", A.queueManager.memFd)
	vfAssert(err == nil, "C14.server-maps-queue")
	B.queueManager = qm
	bm, err2 := getGlobalBufferManagerWithMemFd("p"+bufferPathSuffix, A.bufferManager.memFd, 0, false, nil)
	vfAssert(err2 == nil, "C14.server-maps-buffers")
	B.bufferManager = bm

	sa, _ := A.OpenStream()
	cb := &c14CBWait{}
	sa.SetCallbacks(cb)
	sa.BufferWriter().WriteBytes(vfBytes(3))
	vfAssert(sa.Flush(false) == nil, "C14.flush")
	for i := range smWireAB {
		B.handleEvents(smWireAB[i])
	}
	smWireAB = nil
	sb, _ := B.AcceptStream()
	vfAssert(sb != nil, "C14.server-accepts")
	if sb == nil {
		return
	}
	// the server answers with three bytes; the client's callback wants five
	sb.BufferWriter().WriteBytes(vfBytes(3))
	vfAssert(sb.Flush(false) == nil, "C14.server-flush")
	for i := range smWireBA {
		A.handleEvents(smWireBA[i])
	}
	smWireBA = nil
	vfRunGoroutines()
	vfAssert(cb.data == 1 && !cb.returned, "C14.callback-waits-for-more-data")
	// F-CBCLOSE (known finding, C14 view): a stream that is closed while its OnData is in
	// progress - here by the dying session's teardown - never gets its close callback
	inProgress := sa.callbackInProcess == 1
	switch vfShape("how", 0, 2) {
	case 0:
		A.onRemoteClose()
	case 1:
		vfAssert(A.Close() == nil, "C14.close")
	default:
		A.exitErr(ErrConnectionWriteTimeout)
	}
	vfAssert(A.IsClosed(), "C14.session-becomes-closed")
	// the teardown runs on the event loop: it must come back although a callback was waiting
	for i := 0; i < 2; i++ {
		if i < len(dA.posted) {
			dA.posted[i]()
		}
	}
	vfRunGoroutines()
	vfAssert(cb.returned, "C14.read-pending-in-a-callback-returns-when-the-session-dies")
	vfAssert(cb.readErr != nil, "C14.pending-and-later-reads-fail")
	if inProgress && cb.local+cb.remote == 0 {
		vfAssert(false, "F-CBCLOSE/C14.exactly-one-close-callback")
	} else {
		vfAssert(cb.local+cb.remote == 1, "C14.exactly-one-close-callback")
	}
	B.onRemoteClose()
	for i := 0; i < 2; i++ {
		if i < len(dB.posted) {
			dB.posted[i]()
		}
	}
	for i := 0; i < 2; i++ {
		vfAssert(c14OS.mapped[i] == 0, "C14.no-mapping-left")
		vfAssert(c14OS.fdOpen[i] == 0, "C14.no-descriptor-left")
	}
	vfCover("C14.cbwait.end")
}
