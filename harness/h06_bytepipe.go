//go:build verif

package shmipc

// C06 / C08 / C19(a): the linked buffer as a faithful byte pipe.
//
// World: one real buffer manager created by createBufferManager over a small region (several
// slice-size configurations) and the peer's view by mappingBufferManager; one real IO queue
// (createQueueFromBytes / mappingQueueFromBytes); two minimal Session values A (writer side) and B
// (reader side) with one stream each under the same id. The control connection is a harness
// eventConn; Session.waitForSend (socket fallback) is stubbed to record the bytes on a "wire".
// Transport is performed by the real functions: Stream.Flush -> queue.put -> wakeUpPeer on A,
// handlePolling / handleEvents -> handleFallbackData -> handleStreamMessage ->
// fillDataToReadBuffer on B, pendingData.moveTo via readMore.

type c06Conn struct{ pollings int }

func (c *c06Conn) commitRead(n int)                       {}
func (c *c06Conn) setCallback(cb eventConnCallback) error { return nil }
func (c *c06Conn) write(data []byte) error {
	// the control connection is one ordered byte stream: events written directly (polling) and
	// events handed to the send loop (fallback data, through the stubbed waitForSend) arrive in
	// the order in which they were issued by this single-threaded writer
	c.pollings++
	c06Wire = append(c06Wire, data)
	return nil
}
func (c *c06Conn) writev(data ...[]byte) error { return nil }
func (c *c06Conn) close() error                { return nil }

var c06Wire [][]byte // what the stubbed waitForSend was asked to send, in order

func vfstub_waitForSend(s *Session, hdr header, body []byte) error {
	c06Wire = append(c06Wire, body)
	return nil
}

type c06World struct {
	mem      []byte
	bmA      *bufferManager
	bmB      *bufferManager
	A, B     *Session
	sA, sB   *Stream
	conn     *c06Conn
	model    [48]byte // the bytes the writer produced, in order
	mlen     int      // produced
	flushed  int      // flushed successfully
	hold     int
	consumed int
}

var c06Sizes = [...]int{1, 4, 5, 9, 3, 8, 13, 2}

func c06Setup() *c06World {
	w := &c06World{}
	cfg := vfShape("cfg", 0, 3)
	var pairs []*SizePercentPair
	n := 0
	switch cfg {
	case 0:
		pairs = []*SizePercentPair{{4, 100}}
		n = 116
	case 1:
		pairs = []*SizePercentPair{{4, 50}, {8, 50}}
		n = 248
	case 2:
		pairs = []*SizePercentPair{{2, 30}, {3, 30}, {5, 40}}
		n = 366
	default:
		pairs = []*SizePercentPair{{1, 100}}
		n = 107
	}
	w.mem = make([]byte, n)
	var err error
	w.bmA, err = createBufferManager(pairs, "", w.mem, 0)
	vfAssert(err == nil, "C06.setup.create")
	w.bmB, err = mappingBufferManager("", w.mem, 0)
	vfAssert(err == nil, "C06.setup.mapping")
	vfAssert(len(w.bmB.lists) == len(pairs), "C06.setup.classes")
	const qc = 4
	qmem := make([]byte, queueHeaderLength+qc*queueElementLen)
	qa := createQueueFromBytes(qmem, qc)
	qb := mappingQueueFromBytes(qmem)
	w.conn = &c06Conn{}
	w.A = &Session{bufferManager: w.bmA, queueManager: &queueManager{sendQueue: qa}, eventConn: w.conn,
		streams: map[uint32]*Stream{}, isClient: true, communicationVersion: 2,
		sendCh: make(chan sendReady, 4), notifyContinueWriteCh: make(chan struct{}, 1)}
	w.B = &Session{bufferManager: w.bmB, queueManager: &queueManager{recvQueue: qb},
		streams: map[uint32]*Stream{}, isClient: true, communicationVersion: 2}
	w.sA = newStream(w.A, 7)
	w.sB = newStream(w.B, 7)
	w.A.streams[7] = w.sA
	w.B.streams[7] = w.sB
	c06Wire = nil
	debugMode = true // openCircuitBreaker then does nothing (it only arms a 30 s timer otherwise)
	// exhaustion: the environment holds `hold` buffers of every class (0 .. everything allocatable)
	hold := vfShape("hold", 0, 3)
	w.hold = hold
	for i := range w.bmA.lists {
		for k := 0; k < hold; k++ {
			w.bmA.lists[i].pop()
		}
	}
	return w
}

// one writer call of shape (kind, size) with symbolic bytes
func (w *c06World) write(kind, size int) {
	bw := w.sA.BufferWriter()
	data := vfBytes(size)
	for i := 0; i < size; i++ {
		w.model[w.mlen+i] = data[i]
	}
	before := bw.Len()
	switch kind {
	case 0:
		n, err := bw.WriteBytes(data)
		vfAssert(err == nil && n == size, "C06.WriteBytes-writes-everything")
	case 1:
		buf, err := bw.Reserve(size)
		vfAssert(err == nil && len(buf) == size, "C06.Reserve-returns-size")
		copy(buf, data)
	case 2:
		for i := 0; i < size; i++ {
			vfAssert(bw.WriteByte(data[i]) == nil, "C06.WriteByte")
		}
	default:
		vfAssert(bw.WriteString(string(data)) == nil, "C06.WriteString")
	}
	w.mlen += size
	vfAssert(bw.Len() == before+size, "C06.writer-Len")
}

func (w *c06World) flush() {
	err := w.sA.Flush(false)
	vfAssert(err == nil, "C06.Flush")
	w.flushed = w.mlen
	vfAssert(w.sA.BufferWriter().Len() == 0, "C06.writer-Len-after-flush")
}

// deliver everything that is in transit to B through the real receive path
func (w *c06World) deliver() {
	for i := range c06Wire {
		n, err := w.B.handleEvents(c06Wire[i])
		vfAssert(err == nil && n == len(c06Wire[i]), "C06.control-event-consumed")
	}
	c06Wire = nil
	w.conn.pollings = 0
}

// one reader call of shape (kind, size); size <= available
func (w *c06World) read(kind, size int) {
	br := w.sB.BufferReader()
	avail := w.flushed - w.consumed
	if size > avail {
		vfPrune()
	}
	switch kind {
	case 0:
		b, err := br.ReadBytes(size)
		vfAssert(err == nil && len(b) == size, "C06.ReadBytes-len")
		for i := 0; i < size; i++ {
			vfAssert(b[i] == w.model[w.consumed+i], "C06.ReadBytes-bytes")
		}
		w.consumed += size
	case 1:
		b, err := br.Peek(size)
		vfAssert(err == nil && len(b) == size, "C06.Peek-len")
		for i := 0; i < size; i++ {
			vfAssert(b[i] == w.model[w.consumed+i], "C06.Peek-bytes")
		}
	case 2:
		n, err := br.Discard(size)
		vfAssert(err == nil && n == size, "C06.Discard")
		w.consumed += size
	case 3:
		for i := 0; i < size; i++ {
			b, err := br.ReadByte()
			vfAssert(err == nil && b == w.model[w.consumed], "C06.ReadByte")
			w.consumed++
		}
	case 4:
		s, err := br.ReadString(size)
		vfAssert(err == nil && len(s) == size, "C06.ReadString-len")
		for i := 0; i < size; i++ {
			vfAssert(s[i] == w.model[w.consumed+i], "C06.ReadString-bytes")
		}
		w.consumed += size
	default:
		p := make([]byte, size)
		n, err := w.sB.Read(p)
		vfAssert(err == nil && n >= 1 && n <= size, "C19.Read-returns-1..len(p)")
		for i := 0; i < size; i++ {
			if i < n {
				vfAssert(p[i] == w.model[w.consumed+i], "C19.Read-bytes-in-order")
			}
		}
		w.consumed += n
	}
	vfAssert(br.Len() == w.flushed-w.consumed, "C06.Len-equals-flushed-minus-consumed")
}

// drain: whatever is left comes out, byte for byte (ReadBytes of the rest)
func (w *c06World) drain() {
	rest := w.flushed - w.consumed
	if rest > 0 {
		b, err := w.sB.BufferReader().ReadBytes(rest)
		vfAssert(err == nil && len(b) == rest, "C06.drain-len")
		for i := 0; i < 48; i++ {
			if i < rest {
				vfAssert(b[i] == w.model[w.consumed+i], "C06.drain-bytes")
			}
		}
		w.consumed += rest
	}
	vfAssert(w.sB.BufferReader().Len() == 0, "C06.drain-Len-zero")
}

// every shared-memory buffer is back once the reader released what it read (C09 flavour, used as
// a sanity oracle here: the environment still holds `hold` per class)
func (w *c06World) allBack() bool {
	for i := range w.bmA.lists {
		l := w.bmA.lists[i]
		h := w.hold
		if h > int(*l.cap)-1 {
			h = int(*l.cap) - 1
		}
		if int(*l.size) != int(*l.cap)-h || int(*l.size) != computeFreeSliceNum(l) {
			return false
		}
	}
	return true
}

// H_C06_writer: W writer calls of every kind and size class, one or two flushes, then a plain
// drain on the reader side. Catches composition errors of the writer (slice boundaries, Reserve
// skipping, done(), fallback) for every configuration and exhaustion degree.
func H_C06_writer() {
	w := c06Setup()
	W := vfShape("writes", 1, 3)
	for i := 0; i < W; i++ {
		kind := vfShape("wkind", 0, 3)
		size := c06Sizes[vfShape("wsize", 0, 7)]
		w.write(kind, size)
		if vfShape("flushhere", 0, 1) == 1 || i == W-1 {
			w.flush()
		}
	}
	w.deliver()
	w.drain()
	w.sB.BufferReader().ReleasePreviousRead()
	vfAssert(w.allBack(), "C09.all-buffers-back-after-read-and-release")
	vfCover("C06.writer.end")
}

// H_C06_reader: one or two canonical messages, then R reader calls of every kind and size, then
// drain. Catches reader errors (slice boundaries, slow paths, Peek, pinned handling).
func H_C06_reader() {
	w := c06Setup()
	M := vfShape("messages", 1, 2)
	for m := 0; m < M; m++ {
		size := c06Sizes[vfShape("msize", 0, 7)]
		w.write(vfShape("mkind", 0, 1), size)
		w.flush()
	}
	w.deliver()
	R := vfShape("reads", 1, 3)
	for i := 0; i < R; i++ {
		kind := vfShape("rkind", 0, 5)
		size := vfShape("rsize", 1, 14)
		w.read(kind, size)
	}
	w.drain()
	w.sB.BufferReader().ReleasePreviousRead()
	vfAssert(w.allBack(), "C09.all-buffers-back-after-read-and-release")
	vfCover("C06.reader.end")
}

// ---------------------------------------------------------------------------------------------
// C08: zero-copy read results stay valid until they are released.

type c08Result struct {
	b   []byte
	off int // position in the model
	n   int
}

// slotOf locates the shared-memory slot a zero-copy result lives in: (class index, slot offset in
// the class region); class -1 for heap copies.
func (w *c06World) slotOf(b []byte) (int, uint32) {
	off := vfOffsetIn(b, w.mem)
	if off < 0 {
		return -1, 0
	}
	for i := range w.bmB.lists {
		l := w.bmB.lists[i]
		base := int(l.bufferRegionOffsetInShm)
		stride := int(*l.capPerBuffer) + bufferHeaderSize
		if off >= base && off < base+int(*l.cap)*stride {
			return i, uint32((off - base) / stride * stride)
		}
	}
	return -1, 0
}

// inFreeChain walks the free chain of class ci and reports whether slot is on it.
func (w *c06World) inFreeChain(ci int, slot uint32) bool {
	l := w.bmB.lists[ci]
	off := *l.head
	for i := 0; i < 6; i++ {
		if off == slot {
			return true
		}
		if off+bufferHeaderSize > uint32(len(l.bufferRegion)) {
			return false
		}
		h := bufferHeader(l.bufferRegion[off : off+bufferHeaderSize])
		if !h.hasNext() {
			return false
		}
		off = h.nextBufferOffset()
	}
	return false
}

// interfere: what any other stream of either process may do meanwhile: allocate whatever is
// allocatable, scribble over it, give it back (so that the free chains rotate), allocate again
// and keep it until the end.
func (w *c06World) interfere(keep *[16]*bufferSlice, nkeep *int) {
	pat := vfU8()
	for round := 0; round < 2; round++ {
		var got [8]*bufferSlice
		n := 0
		for i := range w.bmB.lists {
			for k := 0; k < 4; k++ {
				s, err := w.bmB.lists[i].pop()
				if err != nil {
					break
				}
				for j := range s.data {
					s.data[j] = pat
				}
				if n < 8 {
					got[n] = s
					n++
				}
			}
		}
		for k := 0; k < n; k++ {
			if round == 0 {
				w.bmB.recycleBuffer(got[k])
			} else if *nkeep < 16 {
				keep[*nkeep] = got[k]
				*nkeep++
			}
		}
	}
}

func H_C08_pinned() {
	w := c06Setup()
	M := vfShape("messages", 1, 2)
	for m := 0; m < M; m++ {
		size := c06Sizes[vfShape("msize", 0, 7)]
		w.write(0, size)
		w.flush()
	}
	w.deliver()
	var results [4]c08Result
	nres := 0
	var keep [16]*bufferSlice
	nkeep := 0
	R := vfShape("reads", 1, 3)
	br := w.sB.BufferReader()
	for i := 0; i < R; i++ {
		kind := vfShape("rkind", 0, 5)
		size := vfShape("rsize", 1, 14)
		avail := w.flushed - w.consumed
		if size > avail {
			vfPrune()
		}
		if kind == 0 || kind == 1 {
			var b []byte
			var err error
			if kind == 0 {
				b, err = br.ReadBytes(size)
			} else {
				b, err = br.Peek(size)
			}
			vfAssert(err == nil && len(b) == size, "C08.read-len")
			results[nres] = c08Result{b: b, off: w.consumed, n: size}
			nres++
			if kind == 0 {
				w.consumed += size
			}
		} else {
			w.read(kind, size)
		}
		if vfShape("interfere", 0, 1) == 1 {
			w.interfere(&keep, &nkeep)
		}
		// every result obtained so far is still intact and its buffer is still owned by the reader
		for r := 0; r < nres; r++ {
			res := results[r]
			for j := 0; j < 14; j++ {
				if j < res.n {
					vfAssert(res.b[j] == w.model[res.off+j], "C08.result-intact-until-release")
				}
			}
			ci, slot := w.slotOf(res.b)
			if ci >= 0 {
				vfAssert(!w.inFreeChain(ci, slot), "C08.pinned-buffer-not-recycled-before-release")
			}
		}
	}
	// release: afterwards the buffers are available again
	br.ReleasePreviousRead()
	for k := 0; k < nkeep; k++ {
		w.bmB.recycleBuffer(keep[k])
	}
	w.drain()
	br.ReleasePreviousRead()
	vfAssert(w.allBack(), "C08.buffers-available-again-after-release")
	vfCover("C08.end")
}
