//go:build verif

package shmipc

import "os"

// C13: nothing received on the control connection can crash the process.
// Real code: (*Session).handleEvents, checkEventValid, header.*, every protocol handler
// (handlePolling, handleStreamClose, handleFallbackData, handleHotRestart incl. the lambda it
// posts to the dispatcher and SessionManager.handleEvent / handleSessionManagerHotRestart,
// handleHotRestartAck), handleStreamMessage, fillDataToReadBuffer, halfClose, getStream,
// getStreamById, newBufferSlice.  The bytes are symbolic, their number is a shape variable.

type c13Dispatcher struct{ posted []func() }

func (d *c13Dispatcher) runLoop() error                          { return nil }
func (d *c13Dispatcher) newConnection(connFd *os.File) eventConn { return nil }
func (d *c13Dispatcher) shutdown() error                         { return nil }
func (d *c13Dispatcher) post(f func())                           { d.posted = append(d.posted, f) }

// newClientSession dials the new server; here it yields a fresh session or an error (symbolic)
func vfstub_newClientSession(sessionID int, epochID, randID uint64, config *SessionManagerConfig) (*Session, error) {
	if vfBool() {
		return nil, ErrConnectionWriteTimeout
	}
	return &Session{sessionID: sessionID, epochID: epochID, randID: randID}, nil
}

func c13Session(role int) (*Session, *c13Dispatcher) {
	bmem := make([]byte, 116)
	bm, err := createBufferManager([]*SizePercentPair{{4, 100}}, "", bmem, 0)
	vfAssert(err == nil, "C13.setup")
	const qc = 2
	qmem := make([]byte, queueHeaderLength+qc*queueElementLen)
	q := createQueueFromBytes(qmem, qc)
	d := &c13Dispatcher{}
	s := &Session{bufferManager: bm, queueManager: &queueManager{recvQueue: q, sendQueue: createQueue(qc)},
		streams: map[uint32]*Stream{}, communicationVersion: 2, dispatcher: d,
		acceptCh: make(chan *Stream, 4), shutdownCh: make(chan struct{}), config: &Config{}}
	switch role {
	case 0: // client session owned by a session manager
		s.isClient = true
		s.manager = &SessionManager{config: &SessionManagerConfig{Config: &Config{}, MaxStreamNum: 2},
			pools: []*streamPool{newStreamPool(2)}}
	case 1: // server session owned by a listener
		s.listener = &Listener{sessions: &sessions{data: map[*Session]struct{}{}}}
	case 2: // plain client session (Session created through shmipc.Server/newSession directly)
		s.isClient = true
	default: // plain server session
	}
	// one live stream with a symbolic id
	st := newStream(s, vfU32())
	s.streams[st.id] = st
	debugMode = true
	return s, d
}

func H_C13_events() {
	role := vfShape("role", 0, 3)
	n := vfShape("len", 0, 40)
	s, d := c13Session(role)
	buf := vfBytes(n)
	consumed, err := s.handleEvents(buf)
	vfAssert(consumed >= 0 && consumed <= n, "C13.consumed-within-buffer")
	_ = err
	// lambdas posted to the event loop run later on the dispatcher goroutine
	for i := 0; i < 3; i++ { // at most len/16 hot-restart events fit into the buffer
		if i < len(d.posted) {
			d.posted[i]()
		}
	}
	vfAssert(len(d.posted) <= 3, "C13.harness-bound-on-posted-lambdas")
	vfCover("C13.events.end")
	if err == nil && consumed == n && n >= 16 {
		vfCover("C13.events.two-wellformed")
	}
}

// chunking: the same bytes delivered whole or cut into two reads have the same effect.
// Effects are observed at the stream: state, pending data count, fallback bytes.
type c13Effect struct {
	err      bool
	state    uint32
	pending  int
	bytes    [24]byte
	nbytes   int
	posted   int
	consumed int
}

func c13Observe(s *Session, d *c13Dispatcher, id uint32) (e c13Effect) {
	st := s.streams[id]
	if st == nil {
		e.state = 99
		return
	}
	e.state = st.state
	e.pending = len(st.pendingData.unread)
	for i := range st.pendingData.unread {
		fs := st.pendingData.unread[i].fallbackSlice
		if fs != nil {
			for k := fs.readIndex; k < fs.writeIndex; k++ {
				if e.nbytes < 24 {
					e.bytes[e.nbytes] = fs.data[k]
					e.nbytes++
				}
			}
		}
	}
	e.posted = len(d.posted)
	return
}
