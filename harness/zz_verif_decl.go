//go:build verif && !verifreplay

package shmipc

import "os"

// Intrinsics of the symbolic executor (gosmt). Body-less: the executor intercepts the calls.
// For native replay zz_verif_rt.go provides bodies instead (build tag verifreplay).

func vfU8() uint8
func vfU16() uint16
func vfU32() uint32
func vfU64() uint64
func vfInt() int
func vfBool() bool
func vfAssume(c bool)
func vfAssert(c bool, id string)
func vfCover(id string)
func vfShape(name string, lo, hi int) int
func vfBytes(n int) []byte
func vfHavocBytes(b []byte)
func vfAlign(b []byte, align int)
func vfNote(s string)
func vfShared(b []byte, align int)
func vfSpawn(f func())
func vfJoin()
func vfAtomicBegin()
func vfAtomicEnd()
func vfYield()
func vfSameObject(a, b []byte) bool
func vfOffsetOf(a []byte) int
func vfPrune()
func vfOffsetIn(a, region []byte) int
func vfSpawnAtomic(f func())
func vfSpawnCut(f func(), cut int)
func vfStallHook(region []byte, cut int, f func())
func vfStallHookOff()
func vfInfeasibleOK()
func vfRunGoroutines()
func vfSyncHook(cut int, f func())

// c12NewFile: the descriptor getConnDupFd yields for party w. Symbolic run: an empty os.File whose
// Fd is answered by a stub (10 / 20); native replay: one end of a real pipe.
func c12NewFile(w int) *os.File { return &os.File{} }

// conflicting-access check (engine/sym/race.go)
func vfRaceBegin(tag int)
func vfRaceEnd()
func vfRaceCheck(id string)
