//go:build verif

package shmipc

import (
	"context"
	"time"
)

// C17: the real SessionManager.background watchers (one goroutine per pool, run as coroutines of
// the symbolic run: go_policy coro), the real streamPool.close / getOrOpenStream, Session.Close,
// SessionManager.Close, and - for the interplay with hot restart - the real handleHotRestart,
// handleSessionManagerHotRestart and SessionManager.checkHotRestart.
//
// Environment: newClientSession is a stub ("the server is reachable again after `fails` refused
// attempts"); context.WithCancel is a stub with the documented contract (Done is closed by cancel,
// cancel is idempotent); timers fire only when nothing else can happen (rebuild interval, restart
// watcher ticks). A history of events (shapes) is applied; after each event the goroutines run
// until nobody can make progress, and the manager is inspected.

type c17Ctx struct {
	done   chan struct{}
	closed bool
}

func (c *c17Ctx) Deadline() (time.Time, bool)       { return time.Time{}, false }
func (c *c17Ctx) Done() <-chan struct{}             { return c.done }
func (c *c17Ctx) Value(key interface{}) interface{} { return nil }
func (c *c17Ctx) Err() error {
	if c.closed {
		return context.Canceled
	}
	return nil
}

func vfstub_c17_WithCancel(parent context.Context) (context.Context, context.CancelFunc) {
	c := &c17Ctx{done: make(chan struct{})}
	return c, func() {
		if !c.closed {
			c.closed = true
			close(c.done)
		}
	}
}

var c17 struct {
	slowDial  bool // the reconnect takes time: the stub sleeps until the harness lets it finish
	dialDone  bool
	failsLeft int
	calls     int
	made      [8]*Session
	madeFor   [8]int
	nmade     int
}

func c17Session(id int, epoch, randID uint64, sm *SessionManager, d *c13Dispatcher) *Session {
	return &Session{sessionID: id, epochID: epoch, randID: randID, isClient: true, manager: sm, dispatcher: d,
		communicationVersion: 2, config: &Config{}, eventConn: &c16Conn{}, netConn: c14NetConn{},
		sendCh: make(chan sendReady, 2), notifyContinueWriteCh: make(chan struct{}, 1),
		streams: map[uint32]*Stream{}, shutdownCh: make(chan struct{})}
}

var c17D *c13Dispatcher

func vfstub_c17_newClientSession(sessionID int, epochID, randID uint64, config *SessionManagerConfig) (*Session, error) {
	c17.calls++
	if c17.slowDial {
		for !c17.dialDone {
			time.Sleep(time.Millisecond)
		}
	}
	if c17.failsLeft > 0 {
		// the server is not reachable (yet)
		c17.failsLeft--
		return nil, ErrConnectionWriteTimeout
	}
	s := c17Session(sessionID, epochID, randID, nil, c17D)
	if c17.nmade < 8 {
		c17.made[c17.nmade] = s
		c17.madeFor[c17.nmade] = sessionID
		c17.nmade++
	}
	return s, nil
}

func c17RunPosted(d *c13Dispatcher) {
	for i := 0; i < 6; i++ {
		if i < len(d.posted) {
			d.posted[i]()
		}
	}
	d.posted = nil
}

func H_C17_heal() {
	P := vfShape("pools", 1, 2)
	d := &c13Dispatcher{}
	c17D = d
	c17.failsLeft, c17.calls, c17.nmade = 0, 0, 0
	c17.slowDial, c17.dialDone = false, false
	c16Wire = nil
	sm := &SessionManager{config: &SessionManagerConfig{Config: &Config{rebuildInterval: time.Millisecond}, MaxStreamNum: 2},
		ctx: context.Background()}
	for i := 0; i < P; i++ {
		p := newStreamPool(2)
		p.session.Store(c17Session(i, 0, 0, sm, d))
		sm.pools = append(sm.pools, p)
	}
	sm.background()
	vfRunGoroutines()
	for i := 0; i < P; i++ {
		vfAssert(!sm.pools[i].Session().IsClosed(), "C17.healthy-sessions-are-left-alone")
	}
	vfAssert(c17.calls == 0, "C17.no-reconnect-without-a-loss")

	closed := false
	restarted := false
	down := false
	healthy := func(i int) bool { return !sm.pools[i].Session().IsClosed() }
	E := vfShape("events", 1, 3)
	for j := 0; j < E; j++ {
		ev := vfShape("ev", 0, 5)
		switch ev {
		case 0:
			// the session behind pool k is lost (its connection breaks); the server comes back after
			// `fails` refused connection attempts
			k := vfShape("pool", 0, P-1)
			if closed || down || !healthy(k) {
				vfPrune()
			}
			lost := sm.pools[k].Session()
			var other *Session
			if P == 2 {
				other = sm.pools[1-k].Session()
			}
			c17.failsLeft = vfShape("fails", 0, 2)
			want := c17.calls + c17.failsLeft + 1
			lost.onRemoteClose()
			c17RunPosted(d)
			// a call made before the replacement exists fails, it does not hang
			_, gerr := sm.pools[k].getOrOpenStream()
			vfAssert(gerr != nil, "C17.get-stream-on-lost-session-fails")
			vfRunGoroutines()
			c17RunPosted(d)
			cur := sm.pools[k].Session()
			vfAssert(cur != lost, "C17.lost-session-is-replaced")
			vfAssert(!cur.IsClosed(), "C17.replacement-is-alive")
			vfAssert(cur.manager == sm && cur.sessionID == k, "C17.replacement-belongs-to-the-pool")
			vfAssert(cur.epochID == sm.epoch, "C17.replacement-carries-the-current-epoch")
			vfAssert(c17.calls == want, "C17.reconnects-until-the-server-answers-then-stops")
			vfAssert(c17.failsLeft == 0, "C17.retries-after-refused-attempts")
			st, serr := sm.pools[k].getOrOpenStream()
			vfAssert(serr == nil && st != nil && st.Session() == cur, "C17.get-stream-works-again")
			if st != nil {
				sm.PutBack(st)
			}
			if other != nil {
				vfAssert(sm.pools[1-k].Session() == other, "C17.only-the-lost-session-is-replaced")
			}
			vfCover("opt:C17.healed")
		case 1:
			// hot restart: the live sessions selected by `mask` are told to move to the new server
			// (epoch 7); the manager builds replacement pools and its restart watcher acknowledges
			// when all pools moved, or gives up after its time-out; then the old server lets go of
			// the old sessions
			if closed || restarted || down {
				vfPrune()
			}
			restarted = true
			mask := vfShape("mask", 1, 3)
			var old [2]*Session
			told := 0
			for i := 0; i < P; i++ {
				old[i] = sm.pools[i].Session()
				if mask&(1<<uint(i)) != 0 && healthy(i) {
					told++
				}
			}
			if told == 0 || mask >= 1<<uint(P) {
				vfPrune()
			}
			before := c17.calls
			for i := 0; i < P; i++ {
				if mask&(1<<uint(i)) != 0 && healthy(i) {
					n, err := old[i].handleEvents(c16Event(typeHotRestart, 7))
					vfAssert(err == nil && n == headerSize+8, "C17.restart-event-consumed")
					c17RunPosted(d)
				}
			}
			vfRunGoroutines()
			c17RunPosted(d)
			vfAssert(sm.state != hotRestartState, "C17.manager-leaves-hot-restart-state")
			vfAssert(sm.epoch == 7, "C17.manager-epoch-follows-the-restart")
			var moved [2]*Session
			for i := 0; i < P; i++ {
				moved[i] = sm.pools[i].Session()
				if mask&(1<<uint(i)) != 0 && old[i] != moved[i] {
					vfAssert(moved[i].epochID == 7 && !moved[i].IsClosed(), "C17.pool-moved-to-the-new-server")
				}
			}
			if told == P {
				vfAssert(c17.calls == before+P, "C17.one-new-session-per-pool-for-the-restart")
			}
			// the old server goes away: the old sessions break, in the order given by `rot`
			rot := vfShape("rot", 0, P-1)
			calls := c17.calls
			for i := 0; i < P; i++ {
				o := old[(i+rot)%P]
				wasMoved := moved[(i+rot)%P] != o
				if !o.IsClosed() && wasMoved {
					o.onRemoteClose()
				}
				c17RunPosted(d)
				vfRunGoroutines()
				c17RunPosted(d)
			}
			vfAssert(c17.calls == calls, "C17.sessions-replaced-by-hot-restart-are-not-rebuilt-again")
			for i := 0; i < P; i++ {
				if moved[i] != old[i] {
					vfAssert(sm.pools[i].Session() == moved[i] && !moved[i].IsClosed(), "C17.moved-pools-keep-their-new-session")
					st, serr := sm.pools[i].getOrOpenStream()
					vfAssert(serr == nil && st != nil && st.Session() == moved[i], "C17.get-stream-works-after-restart")
					if st != nil {
						sm.PutBack(st)
					}
				}
			}
			vfCover("opt:C17.restarted")
		case 2:
			// the manager is closed: Close returns (every watcher ends, also one that is retrying
			// against an unreachable server), every pool's session is closed, nothing is rebuilt
			if closed {
				vfPrune()
			}
			closed = true
			vfAssert(sm.Close() == nil, "C17.close")
			c17RunPosted(d)
			for i := 0; i < P; i++ {
				vfAssert(sm.pools[i].Session().IsClosed(), "C17.close-closes-every-session")
			}
			calls := c17.calls
			vfRunGoroutines()
			vfAssert(c17.calls == calls, "C17.nothing-is-rebuilt-after-close")
			_, gerr := sm.GetStream()
			vfAssert(gerr != nil, "C17.get-stream-after-close-fails")
			vfCover("opt:C17.closed")
		case 3:
			// the server becomes unreachable and the session behind pool k is lost: the watcher
			// keeps retrying; calls fail meanwhile
			k := vfShape("pool", 0, P-1)
			if closed || !healthy(k) {
				vfPrune()
			}
			down = true
			c17.failsLeft = 1000
			lost := sm.pools[k].Session()
			lost.onRemoteClose()
			c17RunPosted(d)
			before := c17.calls
			vfRunGoroutines()
			c17RunPosted(d)
			vfAssert(c17.calls > before, "C17.reconnect-is-attempted-while-the-server-is-down")
			vfAssert(sm.pools[k].Session().IsClosed(), "C17.no-session-while-the-server-is-down")
			_, gerr := sm.pools[k].getOrOpenStream()
			vfAssert(gerr != nil, "C17.get-stream-fails-while-the-server-is-down")
			vfCover("opt:C17.down")
		case 5:
			// Close while the replacement session is being established (the dial and handshake take
			// time): Close still returns, and the session that is completed meanwhile does not survive it
			k := vfShape("pool", 0, P-1)
			if closed || down || !healthy(k) {
				vfPrune()
			}
			closed = true
			c17.failsLeft = 0
			c17.slowDial, c17.dialDone = true, false
			lost := sm.pools[k].Session()
			lost.onRemoteClose()
			c17RunPosted(d)
			before := c17.calls
			vfRunGoroutines()
			vfAssert(c17.calls == before+1, "C17.reconnect-under-way")
			c17.dialDone = true
			vfAssert(sm.Close() == nil, "C17.close-during-reconnect")
			c17RunPosted(d)
			c17.slowDial = false
			for i := 0; i < P; i++ {
				vfAssert(sm.pools[i].Session().IsClosed(), "C17.close-closes-every-session")
			}
			calls := c17.calls
			vfRunGoroutines()
			vfAssert(c17.calls == calls, "C17.nothing-is-rebuilt-after-close")
			_, gerr := sm.GetStream()
			vfAssert(gerr != nil, "C17.get-stream-after-close-fails")
			vfCover("opt:C17.closed-during-reconnect")
		default:
			// the server is reachable again: every lost pool heals
			if closed || !down {
				vfPrune()
			}
			down = false
			c17.failsLeft = 0
			vfRunGoroutines()
			c17RunPosted(d)
			for i := 0; i < P; i++ {
				cur := sm.pools[i].Session()
				vfAssert(!cur.IsClosed(), "C17.every-pool-heals-when-the-server-is-back")
				vfAssert(cur.epochID == sm.epoch || !restarted, "C17.healed-session-carries-the-current-epoch")
				st, serr := sm.pools[i].getOrOpenStream()
				vfAssert(serr == nil && st != nil && st.Session() == cur, "C17.get-stream-works-when-the-server-is-back")
				if st != nil {
					sm.PutBack(st)
				}
			}
			calls := c17.calls
			vfRunGoroutines()
			vfAssert(c17.calls == calls, "C17.no-reconnect-once-healed")
			vfCover("opt:C17.back")
		}
	}
	vfCover("C17.heal.end")
}
