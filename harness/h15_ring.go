//go:build verif

package shmipc

// C15(a): the stream-pool ring. One inductive step from an arbitrary valid ring state:
// capacity from a listed set (shape), 64-bit cursors symbolic (any phase, wrap-around of the
// index arithmetic), a symbolic sequence of push/pop. Oracle: FIFO model kept by the harness.
func H_C15_ring() {
	capacity := vfShape("cap", 1, 4)
	nops := vfShape("nops", 1, 4)
	p := newStreamPool(uint32(capacity))
	vfAssert(len(p.streams) == capacity && p.capacity == uint32(capacity), "C15.ring.ctor")

	// arbitrary valid state: head <= tail <= head+capacity; the `fill` live entries are distinct
	// streams placed where the ring arithmetic says they are.
	h0 := vfU64()
	fill := vfShape("fill", 0, capacity)
	vfAssume(h0 <= 1<<63)
	p.head = h0
	p.tail = h0 + uint64(fill)
	var model [8]*Stream // FIFO model: model[mh:mt]
	mh, mt := 0, 0
	for i := 0; i < fill; i++ {
		s := &Stream{id: uint32(100 + i)}
		p.streams[(h0+uint64(i))%uint64(capacity)] = s
		model[mt] = s
		mt++
	}
	for k := 0; k < nops; k++ {
		if vfBool() {
			s := &Stream{id: uint32(200 + k)}
			err := p.push(s)
			if mt-mh < capacity {
				vfAssert(err == nil, "C15.ring.push-accepts-when-room")
				model[mt] = s
				mt++
			} else {
				vfAssert(err == errPoolFull, "C15.ring.full-only-when-full")
			}
		} else {
			s := p.pop()
			if mt-mh > 0 {
				vfAssert(s == model[mh], "C15.ring.fifo-once")
				mh++
			} else {
				vfAssert(s == nil, "C15.ring.empty-pop-nil")
			}
		}
		vfAssert(p.tail-p.head == uint64(mt-mh), "C15.ring.count")
		vfAssert(p.tail-p.head <= uint64(capacity), "C15.ring.bounded")
	}
	vfCover("C15.ring.end")
}
