//go:build verif

package shmipc

import (
	"sync/atomic"
	"unsafe"
)

// Free-list harnesses for C01 (no two owners, inside the class, at a boundary, advertised
// capacity, nobody but the holder alters header or payload) and C02 (nothing lost, nothing
// duplicated, failed allocation consumes nothing, free + held <= capacity).
//
// FL(N): a free list of N slots of payload capacity 4 built by the real createFreeBufferList;
// a second view by the real mappingFreeBufferList (the peer process). The list is then put into an
// ARBITRARY quiescent state: `free` slots chained in an arbitrary (symbolic) order, the other slots
// held by the environment (never touched during the run), stale fields arbitrary.

const (
	flCap    = 4
	flStride = flCap + bufferHeaderSize // 24
	flMaxN   = 5
	flMaxOps = 10
	flMaxThr = 3
)

type flOp struct {
	isPop   bool
	ok      bool // pop returned a slice
	off     uint32
	t0, t1  uint32
	inside  bool // offset is a slot boundary inside the class, data/cap as advertised
	fresh   bool // ghost owner was "free" when claimed
	mine    bool // at release: ghost owner still me
	intact  bool // at release: payload signature and header as the holder left them
	errKind bool // failed pop returned ErrNoMoreBuffer
}

type flWorld struct {
	n         int
	mem       []byte
	views     [2]*bufferList
	ghost     []byte // ghost[off]: owner of the slot at off (0 free, 0xEE environment, tid+1)
	tick      *uint32
	nheld     *uint32
	free0     int
	perm      [flMaxN]uint32 // slot offsets in chain order, then the environment-held ones
	ops       [flMaxThr][flMaxOps]flOp
	held      [flMaxThr][flMaxOps]*bufferSlice
	heldSig   [flMaxThr][flMaxOps]uint32
	sizeSeen  [flMaxThr][flMaxOps]int32
	npop      [flMaxThr]int
	npush     [flMaxThr]int
	forcePop  bool
	forcePush bool
	lifo      bool
	chainMark bool                       // recycled slices carry hasNext + a link, as the elements of a multi-slice message do
	jsel      [flMaxThr][flMaxOps]uint8  // which held slice a recycle step returns (symbolic, drawn up front)
	sigs      [flMaxThr][flMaxOps]uint32 // payload signature written by the holder (symbolic, drawn up front)
}

func flSetup(n int, free int) *flWorld {
	w := &flWorld{n: n, free0: free}
	w.mem = make([]byte, bufferListHeaderSize+n*flStride)
	a, err := createFreeBufferList(uint32(n), flCap, w.mem, 0)
	vfAssert(err == nil, "FL.create")
	b, err2 := mappingFreeBufferList(w.mem, 0)
	vfAssert(err2 == nil, "FL.mapping")
	w.views[0], w.views[1] = a, b
	w.ghost = make([]byte, n*flStride+8)
	w.tick = (*uint32)(unsafe.Pointer(&w.ghost[n*flStride]))
	w.nheld = (*uint32)(unsafe.Pointer(&w.ghost[n*flStride+4]))

	// arbitrary chain order: perm is a permutation of the slot indices, chosen as a shape variable
	// (factoradic decoding), so that the initial memory is concrete and only stale fields,
	// payloads, operations and the schedule stay symbolic.
	nperm := 1
	for i := 2; i <= n; i++ {
		nperm *= i
	}
	code := vfShape("perm", 0, nperm-1)
	var avail [flMaxN]int
	for i := 0; i < n; i++ {
		avail[i] = i
	}
	for i := 0; i < n; i++ {
		radix := n - i
		d := code % radix
		code /= radix
		w.perm[i] = uint32(avail[d]) * flStride
		for j := d; j < n-1-i; j++ {
			avail[j] = avail[j+1]
		}
	}
	reg := a.bufferRegion
	for i := 0; i < n; i++ {
		off := w.perm[i]
		hdr := bufferHeader(reg[off : off+bufferHeaderSize])
		if i < free {
			// free slot: size/start zero (push resets them), linked to its successor unless tail
			*(*uint32)(unsafe.Pointer(&hdr[bufferSizeOffset])) = 0
			*(*uint32)(unsafe.Pointer(&hdr[bufferDataStartOffset])) = 0
			if i < free-1 {
				*(*uint32)(unsafe.Pointer(&hdr[nextBufferOffset])) = w.perm[i+1]
				hdr[bufferFlagOffset] = hasNextBufferFlag
			} else {
				*(*uint32)(unsafe.Pointer(&hdr[nextBufferOffset])) = vfU32() // stale link
				hdr[bufferFlagOffset] = 0
			}
		} else {
			// held by the environment: in use, possibly chained to something, arbitrary contents
			*(*uint32)(unsafe.Pointer(&hdr[bufferSizeOffset])) = vfU32()
			*(*uint32)(unsafe.Pointer(&hdr[bufferDataStartOffset])) = vfU32()
			*(*uint32)(unsafe.Pointer(&hdr[nextBufferOffset])) = vfU32()
			fl := vfU8()
			vfAssume(fl == sliceInUsedFlag || fl == sliceInUsedFlag|hasNextBufferFlag)
			hdr[bufferFlagOffset] = fl
			w.ghost[off] = 0xEE
		}
		*(*uint32)(unsafe.Pointer(&reg[off+bufferHeaderSize])) = vfU32() // payload: arbitrary
	}
	*a.size = int32(free)
	*a.head = w.perm[0]
	*a.tail = w.perm[free-1]
	// the symbolic choices of the operations are drawn here, in a fixed order, so that a native
	// replay consumes the input vector in the same order as the symbolic run created it
	for t := 0; t < flMaxThr; t++ {
		for k := 0; k < flMaxOps; k++ {
			w.jsel[t][k] = vfU8()
			w.sigs[t][k] = vfU32()
		}
	}
	return w
}

// one allocate or recycle step of thread t (step k), chosen symbolically
func (w *flWorld) step(t, k int, l *bufferList) {
	op := &w.ops[t][k]
	// the operation kind is a shape variable (concrete per case); sequences that recycle more
	// than they allocated are not part of the space
	isPop := w.forcePop || (!w.forcePush && vfShape("op", 0, 1) == 1)
	if isPop {
		w.npop[t]++
	} else {
		w.npush[t]++
		if w.npush[t] > w.npop[t] {
			vfPrune()
		}
	}
	if isPop {
		op.isPop = true
		op.t0 = atomic.AddUint32(w.tick, 1)
		s, err := l.pop()
		op.t1 = atomic.AddUint32(w.tick, 1)
		if err != nil {
			op.errKind = err == ErrNoMoreBuffer && s == nil
			return
		}
		op.ok = true
		off := s.offsetInShm - l.bufferRegionOffsetInShm
		op.off = off
		op.inside = off%flStride == 0 && off < uint32(w.n*flStride) &&
			s.cap == flCap && len(s.data) == flCap && s.isFromShm &&
			vfOffsetIn(s.data, w.mem) == int(off)+bufferListHeaderSize+bufferHeaderSize &&
			vfOffsetIn(s.bufferHeader, w.mem) == int(off)+bufferListHeaderSize && len(s.bufferHeader) == bufferHeaderSize
		if !op.inside {
			return
		}
		vfAtomicBegin()
		op.fresh = w.ghost[off] == 0
		w.ghost[off] = byte(t + 1)
		*w.nheld = *w.nheld + 1
		vfAtomicEnd()
		// the holder uses its buffer: payload signature, header fields
		sig := w.sigs[t][k]
		*(*uint32)(unsafe.Pointer(&s.data[0])) = sig
		w.heldSig[t][k] = sig
		w.held[t][k] = s
		return
	}
	// recycle one of the slices this thread holds
	j := int(w.jsel[t][k])
	if w.lifo {
		// (hookpush family) the most recently allocated slice still held is the one recycled
		j = -1
		for i := 0; i < flMaxOps; i++ {
			if i < k && w.held[t][i] != nil {
				j = i
			}
		}
		if j < 0 {
			vfPrune()
		}
	}
	vfAssume(j < k)
	s := w.held[t][j]
	vfAssume(s != nil)
	w.held[t][j] = nil
	off := s.offsetInShm - l.bufferRegionOffsetInShm
	op.off = off
	op.intact = *(*uint32)(unsafe.Pointer(&s.data[0])) == w.heldSig[t][j] &&
		*(*uint32)(unsafe.Pointer(&s.bufferHeader[bufferCapOffset])) == flCap &&
		s.bufferHeader.isInUsed() && !s.bufferHeader.hasNext()
	vfAtomicBegin()
	op.mine = w.ghost[off] == byte(t+1)
	w.ghost[off] = 0
	*w.nheld = *w.nheld - 1
	vfAtomicEnd()
	if w.chainMark {
		// the holder had linked this slice into a message chain (linkedBuffer.done does that);
		// recycleBuffers pushes every element with the link still in its header
		s.bufferHeader.linkNext(w.perm[w.n-1])
	}
	op.t0 = atomic.AddUint32(w.tick, 1)
	l.push(s)
	op.t1 = atomic.AddUint32(w.tick, 1)
	op.ok = true
}

// abaWindow: some allocate call overlapped with at least two completed allocations and one
// completed recycle of other threads - the signature of the ABA history on the list head
// (known finding F-ABA). Violations are reported under the "F-ABA/" prefix only when this holds.
func (w *flWorld) abaWindow(T, K int) bool {
	for t := 0; t < T; t++ {
		for k := 0; k < K; k++ {
			v := &w.ops[t][k]
			if !v.isPop {
				continue
			}
			pops, pushes := 0, 0
			for t2 := 0; t2 < T; t2++ {
				if t2 == t {
					continue
				}
				for k2 := 0; k2 < K; k2++ {
					o := &w.ops[t2][k2]
					if !o.ok || o.t1 == 0 {
						continue
					}
					if o.t0 > v.t0 && o.t1 < v.t1 {
						if o.isPop {
							pops++
						} else {
							pushes++
						}
					}
				}
			}
			if pops >= 2 && pushes >= 1 {
				return true
			}
		}
	}
	return false
}

func flAssert(aba bool, c bool, id string) {
	if aba {
		vfAssert(c, "F-ABA/"+id)
	} else {
		vfAssert(c, id)
	}
}

// epilogue: oracles of C01 and C02 over the recorded run and the final memory
func (w *flWorld) check(T, K int, prop string) {
	aba := w.abaWindow(T, K)
	a := w.views[0]
	if prop == "C01" {
		for t := 0; t < T; t++ {
			for k := 0; k < K; k++ {
				op := &w.ops[t][k]
				if op.isPop && op.ok {
					flAssert(aba, op.inside, "C01.inside-class-at-boundary-advertised-capacity")
					flAssert(aba, op.fresh, "C01.no-two-holders")
				}
				if op.isPop && !op.ok {
					flAssert(aba, op.errKind, "C01.failed-allocation-returns-ErrNoMoreBuffer")
				}
				if !op.isPop && op.ok {
					flAssert(aba, op.mine, "C01.still-owner-at-recycle")
					flAssert(aba, op.intact, "C01.nobody-else-alters-header-or-payload")
				}
			}
		}
		vfCover("C01.end")
		return
	}
	// C02: give everything back, then the class offers its full (initial) free set again
	outstanding := 0
	for t := 0; t < T; t++ {
		for k := 0; k < K; k++ {
			if s := w.held[t][k]; s != nil {
				outstanding++
				a.push(s)
			}
		}
	}
	flAssert(aba, int(*a.size) == w.free0, "C02.free-count-restored")
	// walk the chain: exactly free0 distinct free slots, ending at tail
	var seen [flMaxN]bool
	off := *a.head
	steps := 0
	okWalk := true
	for i := 0; i < flMaxN; i++ {
		if off%flStride != 0 || off >= uint32(w.n*flStride) {
			okWalk = false
			break
		}
		idx := off / flStride
		if seen[idx] || w.ghost[off] == 0xEE {
			okWalk = false
			break
		}
		seen[idx] = true
		steps++
		h := bufferHeader(a.bufferRegion[off : off+bufferHeaderSize])
		if !h.hasNext() {
			break
		}
		off = h.nextBufferOffset()
	}
	flAssert(aba, okWalk, "C02.chain-visits-each-free-slot-once")
	flAssert(aba, steps == w.free0, "C02.chain-length-equals-capacity")
	flAssert(aba, off == *a.tail, "C02.chain-ends-at-tail")
	flAssert(aba, computeFreeSliceNum(a) == w.free0, "C02.computeFreeSliceNum-agrees")
	for t := 0; t < T; t++ {
		for k := 0; k < K; k++ {
			op := &w.ops[t][k]
			if op.isPop && !op.ok {
				flAssert(aba, op.errKind, "C02.failed-allocation-returns-ErrNoMoreBuffer")
			}
		}
	}
	vfCover("C02.end")
	if outstanding > 0 {
		vfCover("opt:C02.end-with-outstanding")
	}
}

func (w *flWorld) monitor() {
	a := w.views[0]
	vfSpawn(func() {
		vfAtomicBegin()
		sz := atomic.LoadInt32(a.size)
		nh := *w.nheld
		vfAtomicEnd()
		vfAssert(int(sz)+int(nh) <= w.free0, "C02.free-plus-held-never-exceeds-capacity")
	})
}

// family "stall": T0 performs one allocation and may stall at any single point inside it while
// the adversary T1 performs K operations (kinds = shape, which slice to recycle = symbolic).
func flStall(prop string) {
	n := vfShape("slots", 2, flMaxN)
	free := vfShape("free", 1, n)
	K := vfShape("advops", 1, flMaxOps)
	w := flSetup(n, free)
	vfInfeasibleOK() // operation sequences whose recycles have nothing to recycle (few free slots)
	vfShared(w.mem, flStride)
	vfShared(w.ghost, flStride)
	vfSpawn(func() { w.step(0, 0, w.views[0]) })
	// the adversary runs its K operations back to back while T0 is stalled (it is scheduled once,
	// after T0's first segment): T0's stall point is symbolic, the adversary is sequential
	vfSpawnAtomic(func() {
		for k := 0; k < K; k++ {
			w.step(1, k, w.views[1])
		}
	})
	if prop == "C02" {
		w.monitor()
	}
	vfJoin()
	w.check(2, K, prop)
}

// family "stallcut": as "stall", with the victim's stall point case-split as a shape variable
// (after exactly `cut` of its shared accesses). Everything else (which held slice is recycled,
// stale fields, payloads) stays symbolic. This trades the solver-chosen stall point for depth:
// adversaries of 6-7 operations are out of reach of the fully symbolic family.
func flStallCut(prop string) {
	n := vfShape("slots", 2, flMaxN)
	free := vfShape("free", 1, n)
	K := vfShape("advops", 1, flMaxOps)
	cut := vfShape("cut", 0, 48)
	w := flSetup(n, free)
	vfShared(w.mem, flStride)
	vfShared(w.ghost, flStride)
	vfSpawnCut(func() { w.step(0, 0, w.views[0]) }, cut)
	vfSpawnAtomic(func() {
		for k := 0; k < K; k++ {
			w.step(1, k, w.views[1])
		}
	})
	vfJoin()
	w.check(2, K, prop)
}

func H_C01_stallcut() { flStallCut("C01") }
func H_C02_stallcut() { flStallCut("C02") }

// family "hook" (sequential): the victim's single allocation runs on the real memory; after
// exactly `cut` of its accesses to the list's memory (cut = shape, every position) the adversary
// runs its K operations to completion, then the victim continues. Same scenario as "stall", but
// the interleaving point is case-split instead of solver-chosen, so everything folds and adversaries
// of 6-7 operations are cheap. What stays symbolic: which held slice is recycled, stale fields,
// payloads.
func flHook(prop string) {
	n := vfShape("slots", 2, flMaxN)
	free := vfShape("free", 1, n)
	K := vfShape("advops", 1, 7)
	cut := vfShape("cut", 0, 16)
	w := flSetup(n, free)
	vfInfeasibleOK() // operation sequences whose recycles have nothing to recycle, cuts beyond the victim's accesses
	ran := false
	vfStallHook(w.mem, cut, func() {
		ran = true
		w.forcePop = false
		for k := 0; k < K; k++ {
			w.step(1, k, w.views[1])
		}
		w.forcePop = true
	})
	w.forcePop = true
	w.step(0, 0, w.views[0])
	w.forcePop = false
	vfStallHookOff()
	vfAssume(ran) // a cut beyond the victim's accesses is not a stall
	w.check(2, K, prop)
}

// family "hookpush" (sequential): the victim is a RECYCLE that stalls after exactly `cut` of its
// accesses (e.g. between its tail CAS and its linkNext). Before it the adversary performs P
// operations, during the stall K operations. With mark=1 every recycled slice carries a chain link
// in its header (hasNext + next), as each element of a multi-slice message does when
// recycleBuffers pushes it: push has to clear it.
func flHookPush(prop string) {
	n := vfShape("slots", 3, flMaxN)
	free := vfShape("free", 2, n)
	P := vfShape("preops", 0, 3)
	K := vfShape("advops", 1, 5)
	cut := vfShape("cut", 0, 24)
	w := flSetup(n, free)
	vfInfeasibleOK()
	w.chainMark = vfShape("mark", 0, 1) == 1
	w.lifo = true
	for k := 0; k < P; k++ {
		w.step(1, k, w.views[1])
	}
	w.forcePop = true
	w.step(0, 0, w.views[0]) // the victim allocates (not hooked)
	w.forcePop = false
	vfAssume(w.ops[0][0].ok)
	ran := false
	vfStallHook(w.mem, cut, func() {
		ran = true
		w.forcePush = false
		for k := 0; k < K; k++ {
			w.step(1, P+k, w.views[1])
		}
		w.forcePush = true
	})
	w.forcePush = true
	w.step(0, 1, w.views[0]) // the victim recycles it: hooked
	w.forcePush = false
	vfStallHookOff()
	vfAssume(ran)
	w.check(2, P+K, prop)
}

func H_C01_hookpush() { flHookPush("C01") }
func H_C02_hookpush() { flHookPush("C02") }

func H_C01_hook() { flHook("C01") }
func H_C02_hook() { flHook("C02") }

// family "sym": T threads x k symbolic operations each.
func flSym(prop string) {
	n := vfShape("slots", 2, flMaxN)
	free := vfShape("free", 1, n)
	T := vfShape("threads", 2, flMaxThr)
	K := vfShape("ops", 1, 3)
	w := flSetup(n, free)
	vfShared(w.mem, flStride)
	vfShared(w.ghost, flStride)
	for t := 0; t < T; t++ {
		t := t
		vfSpawn(func() {
			for k := 0; k < K; k++ {
				w.step(t, k, w.views[t%2])
			}
		})
	}
	if prop == "C02" {
		w.monitor()
	}
	vfJoin()
	w.check(T, K, prop)
}

func H_C01_stall() { flStall("C01") }
func H_C01_sym()   { flSym("C01") }
func H_C02_stall() { flStall("C02") }
func H_C02_sym()   { flSym("C02") }

// sequential twin: from an arbitrary quiescent list, one allocation and its recycle
func H_C02_seq() {
	n := vfShape("slots", 1, flMaxN)
	free := vfShape("free", 1, n)
	w := flSetup(n, free)
	a, b := w.views[0], w.views[1]
	s, err := a.pop()
	if free >= 2 {
		vfAssert(err == nil && s != nil, "C02.seq.allocation-succeeds-with-two-free")
		vfAssert(*a.size == int32(free-1), "C02.seq.count-after-allocation")
		vfAssert(s.offsetInShm-a.bufferRegionOffsetInShm == w.perm[0], "C02.seq.allocates-the-head")
		vfAssert(w.ghost[w.perm[0]] == 0, "C02.seq.allocated-slot-was-free")
		b.push(s)
	} else {
		vfAssert(err == ErrNoMoreBuffer && s == nil, "C02.seq.last-slot-is-never-allocated")
		vfAssert(*a.size == int32(free), "C02.seq.failed-allocation-consumes-nothing")
	}
	vfAssert(*a.size == int32(free), "C02.seq.count-restored")
	vfAssert(computeFreeSliceNum(b) == free, "C02.seq.walk")
	vfCover("C02.seq.end")
}

// ---------------------------------------------------------------------------------------------
// recycle-chain: a holder linked two or three of its slices into a message chain (as done() does)
// and the peer recycles the chain through bufferManager.recycleBuffers (readBufferSlice + push per
// element) while another thread recycles a slice of its own into the same class.
func H_C02_chain() {
	n := vfShape("slots", 4, 5)
	clen := vfShape("chain", 2, 3)
	mem := make([]byte, bufferManagerHeaderSize+bufferListHeaderSize+n*flStride)
	bmA, err := createBufferManager([]*SizePercentPair{{flCap, 100}}, "", mem, 0)
	vfAssert(err == nil && len(bmA.lists) == 1 && int(*bmA.lists[0].cap) == n, "C02.chain.setup")
	bmB, err2 := mappingBufferManager("", mem, 0)
	vfAssert(err2 == nil, "C02.chain.mapping")
	// rotate the free list first so that the chain can start anywhere in the region (in
	// particular: the region's last slot as a non-first chain element)
	rot := vfShape("rotate", 0, n-1)
	for i := 0; i < rot; i++ {
		s, e := bmA.lists[0].pop()
		vfAssert(e == nil, "C02.chain.rotate")
		bmA.lists[0].push(s)
	}
	// the holder allocates the chain elements and one more slice that the other thread recycles
	var chain [3]*bufferSlice
	for i := 0; i < clen; i++ {
		s, e := bmA.lists[0].pop()
		vfAssert(e == nil, "C02.chain.alloc")
		s.append(byte(i + 1))
		chain[i] = s
	}
	extra, e3 := bmA.lists[0].pop()
	if e3 != nil {
		vfPrune() // not enough slots for a chain plus one
	}
	for i := 0; i < clen-1; i++ {
		chain[i].nextSlice = chain[i+1]
	}
	for i := 0; i < clen; i++ {
		chain[i].update()
	}
	root := chain[0].offsetInShm
	freeBefore := int(*bmA.lists[0].size)
	vfShared(mem, 4)
	vfSpawn(func() {
		s, rerr := bmB.readBufferSlice(root)
		vfAssert(rerr == nil, "C02.chain.read")
		bmB.recycleBuffers(s)
	})
	vfSpawn(func() { bmA.recycleBuffer(extra) })
	vfJoin()
	l := bmA.lists[0]
	vfAssert(int(*l.size) == freeBefore+clen+1, "C02.chain.free-count-restored")
	vfAssert(int(*l.size) == n, "C02.chain.full-capacity")
	// walk: every slot exactly once, ends at tail
	var seen [flMaxN]bool
	off := *l.head
	steps := 0
	ok := true
	for i := 0; i < flMaxN; i++ {
		if off%flStride != 0 || off >= uint32(n*flStride) {
			ok = false
			break
		}
		if seen[off/flStride] {
			ok = false
			break
		}
		seen[off/flStride] = true
		steps++
		h := bufferHeader(l.bufferRegion[off : off+bufferHeaderSize])
		if !h.hasNext() {
			break
		}
		off = h.nextBufferOffset()
	}
	vfAssert(ok && steps == n && off == *l.tail, "C02.chain.walk-visits-every-slot-once")
	vfAssert(computeFreeSliceNum(l) == n, "C02.chain.computeFreeSliceNum")
	vfCover("C02.chain.end")
}
