//go:build verif && verifreplay

package shmipc

// Native bodies of the gosmt intrinsics, used to replay a solver model against the real build.
// Inputs are consumed in creation order from vfInputVec; shape variables from vfShapeMap.

import (
	"fmt"
	"os"
	"unsafe"
)

var (
	vfInputVec          []uint64
	vfInputPos          int
	vfShapeMap          = map[string]int{}
	vfShapeSeq          = map[string]int{}
	vfFailed            string
	vfCovered           []string
	vfConcurrentHarness bool
)

type vfAssertFailure struct{ id string }

func vfNext() uint64 {
	if vfInputPos >= len(vfInputVec) {
		panic("VFREPLAY: input vector exhausted (native path diverged from the model)")
	}
	v := vfInputVec[vfInputPos]
	vfInputPos++
	return v
}

func vfU8() uint8   { return uint8(vfNext()) }
func vfU16() uint16 { return uint16(vfNext()) }
func vfU32() uint32 { return uint32(vfNext()) }
func vfU64() uint64 { return vfNext() }
func vfInt() int    { return int(vfNext()) }
func vfBool() bool  { return vfNext() != 0 }
func vfAssume(c bool) {
	if !c {
		panic("VFREPLAY: assumption false under the model (diverged)")
	}
}
func vfAssert(c bool, id string) {
	if !c {
		fmt.Fprintf(os.Stdout, "VFASSERT-FAIL: %s\n", id)
		panic(vfAssertFailure{id})
	}
}
func vfCover(id string) { vfCovered = append(vfCovered, id) }
func vfShape(name string, lo, hi int) int {
	vfShapeSeq[name]++
	k := fmt.Sprintf("%s#%d", name, vfShapeSeq[name])
	v, ok := vfShapeMap[k]
	if !ok {
		panic("VFREPLAY: missing shape " + k)
	}
	return v
}
func vfBytes(n int) []byte {
	b := make([]byte, n)
	for i := range b {
		b[i] = byte(vfNext())
	}
	return b
}
func vfHavocBytes(b []byte) {
	for i := range b {
		b[i] = byte(vfNext())
	}
}
func vfAlign(b []byte, align int)  {}
func vfNote(s string)              {}
func vfShared(b []byte, align int) {}
func vfSpawn(f func()) {
	panic("VFREPLAY: concurrent harness cannot be replayed by the sequential runner")
}
func vfJoin()        {}
func vfAtomicBegin() {}
func vfAtomicEnd()   {}
func vfYield()       {}
func vfSameObject(a, b []byte) bool {
	if cap(a) == 0 || cap(b) == 0 {
		return false
	}
	// same backing array iff the ends of the capacity windows coincide
	return &a[:cap(a)][cap(a)-1] == &b[:cap(b)][cap(b)-1] || vfOverlap(a, b)
}
func vfOverlap(a, b []byte) bool { return false }
func vfOffsetOf(a []byte) int    { return -1 }
func vfPrune()                   { panic("VFREPLAY: pruned shape case") }

func vfOffsetIn(a, region []byte) int {
	if cap(a) == 0 || cap(region) == 0 {
		return -1
	}
	pa := uintptr(unsafe.Pointer(&a[:1][0]))
	pr := uintptr(unsafe.Pointer(&region[:1][0]))
	if pa < pr || pa >= pr+uintptr(cap(region)) {
		return -1
	}
	return int(pa - pr)
}
func vfSpawnAtomic(f func()) {
	panic("VFREPLAY: concurrent harness cannot be replayed by the sequential runner")
}
func vfSpawnCut(f func(), cut int) {
	panic("VFREPLAY: concurrent harness cannot be replayed by the sequential runner")
}
