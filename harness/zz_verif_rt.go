//go:build verif && verifreplay

package shmipc

// Native bodies of the gosmt intrinsics, used to replay a solver model against the real build.
// Inputs are consumed in creation order from vfInputVec; shape variables from vfShapeMap.

import (
	"fmt"
	"os"
	"sync/atomic"
	"time"
	"unsafe"
)

var (
	vfInputVec          []uint64
	vfInputPos          int
	vfShapeMap          = map[string]int{}
	vfShapeSeq          = map[string]int{}
	vfFailed            string
	vfCovered           []string
	vfConcurrentHarness bool
)

type vfAssertFailure struct{ id string }

func vfNext() uint64 {
	if vfInputPos >= len(vfInputVec) {
		panic("VFREPLAY: input vector exhausted (native path diverged from the model)")
	}
	v := vfInputVec[vfInputPos]
	vfInputPos++
	return v
}

func vfU8() uint8   { return uint8(vfNext()) }
func vfU16() uint16 { return uint16(vfNext()) }
func vfU32() uint32 { return uint32(vfNext()) }
func vfU64() uint64 { return vfNext() }
func vfInt() int    { return int(vfNext()) }
func vfBool() bool  { return vfNext() != 0 }
func vfAssume(c bool) {
	if !c {
		panic("VFREPLAY: assumption false under the model (diverged)")
	}
}
func vfAssert(c bool, id string) {
	if !c {
		fmt.Fprintf(os.Stdout, "VFASSERT-FAIL: %s\n", id)
		if len(id) > 2 && id[:2] == "F-" {
			// an assertion tagged with a recorded finding: the run goes on, so that what the
			// model singled out further down can be confirmed or refuted
			return
		}
		panic(vfAssertFailure{id})
	}
}
func vfCover(id string) { vfCovered = append(vfCovered, id) }
func vfShape(name string, lo, hi int) int {
	vfShapeSeq[name]++
	k := fmt.Sprintf("%s#%d", name, vfShapeSeq[name])
	v, ok := vfShapeMap[k]
	if !ok {
		panic("VFREPLAY: missing shape " + k)
	}
	return v
}
func vfBytes(n int) []byte {
	b := make([]byte, n)
	for i := range b {
		b[i] = byte(vfNext())
	}
	return b
}
func vfHavocBytes(b []byte) {
	for i := range b {
		b[i] = byte(vfNext())
	}
}
func vfAlign(b []byte, align int)  {}
func vfNote(s string)              {}
func vfShared(b []byte, align int) {}
func vfAtomicBegin()               {}
func vfAtomicEnd()                 {}
func vfYield()                     {}
func vfSameObject(a, b []byte) bool {
	// same region: one slice starts inside the capacity window of the other
	return vfOffsetIn(a, b) >= 0 || vfOffsetIn(b, a) >= 0
}
func vfOffsetOf(a []byte) int { return -1 }
func vfPrune()                { panic("VFREPLAY: pruned shape case") }

func vfOffsetIn(a, region []byte) int {
	if cap(a) == 0 || cap(region) == 0 {
		return -1
	}
	pa := uintptr(unsafe.Pointer(&a[:1][0]))
	pr := uintptr(unsafe.Pointer(&region[:1][0]))
	if pa < pr || pa >= pr+uintptr(cap(region)) {
		return -1
	}
	return int(pa - pr)
}

// ---------------------------------------------------------------------------------------------
// Controlled scheduler for the native replay of a concurrent counterexample. The model's schedule
// is given as, per thread, the list of its shared-access steps (source line ranges) and, per round,
// how many of them it performs. Threads are goroutines that run one at a time; the instrumented
// sources call vfGate before every statement; a thread is parked when it reaches the step that
// belongs to a later round.

type vfStep struct {
	File string
	Line int
}

type vfThread struct {
	f      func()
	steps  []vfStep // expected shared-access steps, in order
	quota  []int    // steps per round
	pos    int      // next expected step
	round  int
	done   int // steps done in the current round
	resume chan struct{}
	parked chan struct{}
	fin    bool
	stuck  bool
}

var (
	vfThreads  []*vfThread
	vfCurrent  = -1
	vfSchedule [][]int    // [thread][round] = number of steps
	vfStepsOf  [][]vfStep // [thread] = expected steps
	vfDiverged string
	vfFinished []bool // per thread: did it run to completion in the model
)

func vfSpawn(f func())             { vfThreads = append(vfThreads, &vfThread{f: f}) }
func vfSpawnAtomic(f func())       { vfSpawn(f) }
func vfSpawnCut(f func(), cut int) { vfSpawn(f) }

func vfJoin() {
	if len(vfThreads) == 0 {
		return
	}
	if len(vfSchedule) != len(vfThreads) {
		panic("VFREPLAY: schedule does not cover the harness threads")
	}
	rounds := 0
	for i, th := range vfThreads {
		th.quota = vfSchedule[i]
		th.steps = vfStepsOf[i]
		th.resume = make(chan struct{})
		th.parked = make(chan struct{})
		if len(th.quota) > rounds {
			rounds = len(th.quota)
		}
	}
	started := make([]bool, len(vfThreads))
	for r := 0; r < rounds; r++ {
		for i, th := range vfThreads {
			if th.fin || th.stuck {
				continue
			}
			last := r == rounds-1
			if th.quota[r] == 0 && !last {
				continue
			}
			th.round, th.done = r, 0
			vfCurrent = i
			if !started[i] {
				started[i] = true
				go func(i int, th *vfThread) {
					<-th.resume
					defer func() {
						if x := recover(); x != nil {
							if af, ok := x.(vfAssertFailure); ok {
								vfFailed = af.id
							} else {
								vfDiverged = fmt.Sprint("panic in thread: ", x)
								fmt.Fprintf(os.Stdout, "VFTHREAD-PANIC: %v\n", x)
							}
						}
						th.fin = true
						th.parked <- struct{}{}
					}()
					th.f()
				}(i, th)
			}
			th.resume <- struct{}{}
			<-th.parked
			vfCurrent = -1
		}
	}
	for i, th := range vfThreads {
		if th.stuck {
			continue
		}
		if !th.fin {
			panic(fmt.Sprintf("VFREPLAY: thread %d did not finish within the model's rounds (diverged)", i))
		}
		if th.pos != len(th.steps) {
			panic(fmt.Sprintf("VFREPLAY: thread %d performed %d of %d expected shared steps (diverged)", i, th.pos, len(th.steps)))
		}
	}
	if vfFailed != "" {
		panic(vfAssertFailure{vfFailed})
	}
	vfThreads = nil
}

// vfGate is called by the instrumented sources before every statement (line range lo..hi).
func vfGate(file string, lo, hi int) {
	vfHookCheck(file, lo, hi, false)
	if vfCurrent < 0 {
		return
	}
	th := vfThreads[vfCurrent]
	if th.pos >= len(th.steps) {
		if vfCurrent < len(vfFinished) && !vfFinished[vfCurrent] {
			// the model leaves this thread here (it never performs another shared access)
			th.stuck = true
			th.parked <- struct{}{}
			select {}
		}
		return
	}
	st := th.steps[th.pos]
	if st.File != file || st.Line < lo || st.Line > hi {
		return // a statement without a shared access of the model
	}
	// this statement performs the next expected step (and possibly the following ones on its lines)
	if th.done >= th.quota[th.round] {
		// it belongs to a later round: park until rescheduled
		th.parked <- struct{}{}
		<-th.resume
	}
	for th.pos < len(th.steps) && th.steps[th.pos].File == file && th.steps[th.pos].Line >= lo && th.steps[th.pos].Line <= hi {
		if os.Getenv("VERIF_TRACE") != "" {
			fmt.Fprintf(os.Stdout, "NATIVE r%d t%d step %d %s:%d\n", th.round, vfCurrent, th.pos, file, th.steps[th.pos].Line)
		}
		th.pos++
		th.done++
	}
}

// sequential stall hook, native side: the gate in front of the statement that performs the
// access before which the model ran the adversary (its vfHookOcc-th execution) runs it here.
var (
	vfHookFile   string
	vfHookLine   int
	vfHookOcc    int
	vfHookFn     func()
	vfHookSeen   int
	vfHookAtomic bool
)

func vfHookCheck(file string, lo, hi int, atomicGate bool) {
	if vfHookFn != nil && atomicGate == vfHookAtomic && file == vfHookFile && vfHookLine >= lo && vfHookLine <= hi {
		vfHookSeen++
		if vfHookSeen == vfHookOcc {
			f := vfHookFn
			vfHookFn = nil
			f()
		}
	}
}

func vfAtomicLoadUint32(f string, l int, p *uint32) uint32 {
	vfHookCheck(f, l, l, true)
	return atomic.LoadUint32(p)
}
func vfAtomicLoadInt32(f string, l int, p *int32) int32 {
	vfHookCheck(f, l, l, true)
	return atomic.LoadInt32(p)
}
func vfAtomicLoadInt64(f string, l int, p *int64) int64 {
	vfHookCheck(f, l, l, true)
	return atomic.LoadInt64(p)
}
func vfAtomicLoadUint64(f string, l int, p *uint64) uint64 {
	vfHookCheck(f, l, l, true)
	return atomic.LoadUint64(p)
}
func vfAtomicStoreUint32(f string, l int, p *uint32, v uint32) {
	vfHookCheck(f, l, l, true)
	atomic.StoreUint32(p, v)
}
func vfAtomicStoreInt32(f string, l int, p *int32, v int32) {
	vfHookCheck(f, l, l, true)
	atomic.StoreInt32(p, v)
}
func vfAtomicStoreInt64(f string, l int, p *int64, v int64) {
	vfHookCheck(f, l, l, true)
	atomic.StoreInt64(p, v)
}
func vfAtomicStoreUint64(f string, l int, p *uint64, v uint64) {
	vfHookCheck(f, l, l, true)
	atomic.StoreUint64(p, v)
}
func vfAtomicAddUint32(f string, l int, p *uint32, d uint32) uint32 {
	vfHookCheck(f, l, l, true)
	return atomic.AddUint32(p, d)
}
func vfAtomicAddInt32(f string, l int, p *int32, d int32) int32 {
	vfHookCheck(f, l, l, true)
	return atomic.AddInt32(p, d)
}
func vfAtomicAddInt64(f string, l int, p *int64, d int64) int64 {
	vfHookCheck(f, l, l, true)
	return atomic.AddInt64(p, d)
}
func vfAtomicAddUint64(f string, l int, p *uint64, d uint64) uint64 {
	vfHookCheck(f, l, l, true)
	return atomic.AddUint64(p, d)
}
func vfAtomicCompareAndSwapUint32(f string, l int, p *uint32, o, n uint32) bool {
	vfHookCheck(f, l, l, true)
	return atomic.CompareAndSwapUint32(p, o, n)
}
func vfAtomicCompareAndSwapInt32(f string, l int, p *int32, o, n int32) bool {
	vfHookCheck(f, l, l, true)
	return atomic.CompareAndSwapInt32(p, o, n)
}
func vfAtomicCompareAndSwapInt64(f string, l int, p *int64, o, n int64) bool {
	vfHookCheck(f, l, l, true)
	return atomic.CompareAndSwapInt64(p, o, n)
}
func vfAtomicCompareAndSwapUint64(f string, l int, p *uint64, o, n uint64) bool {
	vfHookCheck(f, l, l, true)
	return atomic.CompareAndSwapUint64(p, o, n)
}

func vfStallHook(region []byte, cut int, f func()) { vfHookFn, vfHookSeen = f, 0 }
func vfStallHookOff()                              { vfHookFn = nil }
func vfInfeasibleOK()                              {}

// vfRunGoroutines: natively the goroutines the code started run by themselves; give them the time
// the slowest one needs (the hot-restart watchers give up after 2 s)
func vfRunGoroutines() { time.Sleep(2600 * time.Millisecond) }

// vfSyncHook: like vfStallHook, counting synchronisation operations (atomics, lock acquisitions,
// channel operations) of the code that runs after it instead of accesses to one region
func vfSyncHook(cut int, f func()) { vfHookFn, vfHookSeen = f, 0 }

func c12NewFile(w int) *os.File {
	r, _, err := os.Pipe()
	if err != nil {
		panic(err)
	}
	return r
}

func vfRaceBegin(tag int)   {}
func vfRaceEnd()            {}
func vfRaceCheck(id string) {}
