//go:build verif

package shmipc

import (
	"sync/atomic"
	"unsafe"
)

// C05: an enqueued element is never stranded without a wake-up.
// Real code: (*queue).put/pop/size/markWorking/markNotWorking, (*Session).wakeUpPeer,
// handlePolling (with the real getStream on an empty stream table; elements carry status
// streamClosed so the drain loop's body is `continue`), writeEventData. The control connection is a
// harness eventConn that counts polling events in flight; the slow path's sendCh counts likewise.

type c05Conn struct{ inflight *uint32 }

func (c *c05Conn) commitRead(n int)                       {}
func (c *c05Conn) setCallback(cb eventConnCallback) error { return nil }
func (c *c05Conn) write(data []byte) error {
	if len(data) >= headerSize && header(data).MsgType() != typePolling {
		return nil // some other writer's event: it wakes nobody
	}
	atomic.AddUint32(c.inflight, 1)
	return nil
}
func (c *c05Conn) writev(data ...[]byte) error { return nil }
func (c *c05Conn) close() error                { return nil }

func H_C05_wakeup() {
	P := vfShape("producers", 1, 3)
	p := vfShape("puts", 1, 2)
	E := vfShape("deliveries", 1, 5)
	const c = 2
	mem := make([]byte, queueHeaderLength+c*queueElementLen)
	prodQ := createQueueFromBytes(mem, c)
	consQ := mappingQueueFromBytes(mem)
	ghost := make([]byte, 8)
	inflight := (*uint32)(unsafe.Pointer(&ghost[0]))
	handled := (*uint32)(unsafe.Pointer(&ghost[4]))
	vfShared(mem, 4)
	vfShared(ghost, 4)

	// producer side session (process A) and consumer side session (process B)
	a := &Session{
		queueManager:          &queueManager{sendQueue: prodQ},
		eventConn:             &c05Conn{inflight: inflight},
		sendCh:                make(chan sendReady, 4),
		notifyContinueWriteCh: make(chan struct{}, 1),
		communicationVersion:  2,
	}
	b := &Session{
		queueManager: &queueManager{recvQueue: consQ},
		streams:      map[uint32]*Stream{},
		isClient:     true, // the real getStream then never creates a stream for an unknown id
	}
	var accepted [3][2]bool
	for t := 0; t < P; t++ {
		t := t
		vfSpawn(func() {
			for k := 0; k < p; k++ {
				e := queueElement{seqID: uint32(t*8 + k + 1), offsetInShmBuf: 0, status: uint32(streamClosed)}
				if err := a.sendQueue().put(e); err == nil {
					accepted[t][k] = true
					a.wakeUpPeer()
				}
			}
		})
	}
	vfSpawn(func() { // process B's event loop: up to E polling events are delivered and handled
		for i := 0; i < E; i++ {
			took := false
			vfAtomicBegin()
			if *inflight > 0 {
				*inflight = *inflight - 1
				took = true
			}
			vfAtomicEnd()
			if !took {
				// the send loop of A writes queued polling events eventually: take one from sendCh
				select {
				case <-a.sendCh:
					took = true
				default:
				}
			}
			if took {
				handlePolling(b, nil, nil)
				*handled = *handled + 1
			}
		}
	})
	vfJoin()
	// all producers finished, the event loop is idle. If no notification is left in flight
	// (neither written nor queued for the send loop), nothing may be left in the queue.
	nothingInFlight := *inflight == 0 && len(a.sendCh) == 0
	if nothingInFlight {
		vfAssert(consQ.size() == 0, "C05.no-stranded-element")
		vfCover("C05.quiescent")
	}
	if consQ.size() == 0 && *handled > 0 {
		vfCover("C05.drained-by-notification")
	}
	nacc := 0
	for t := 0; t < P; t++ {
		for k := 0; k < p; k++ {
			if accepted[t][k] {
				nacc++
			}
		}
	}
	sent := int(a.stats.sendPollingEventCount)
	vfAssert(sent <= nacc, "C05.at-most-one-notification-per-element")
	vfAssert(!(consQ.size() > 0 && !consQ.consumerIsWorking() && nothingInFlight), "C05.nonempty-idle-has-notification")
	vfCover("C05.end")
}

// C05 (a stalled send loop): go_policy coro. The control connection is busy (another writer holds
// Session.writing, e.g. a large fallback message going out slowly) and sendCh is full, so a
// producer's wake-up has to wait in the slow path of wakeUpPeer for as long as that lasts - longer
// than any time-out (time passes: timers fire when nobody can proceed). Then the connection gets
// free, the real send loop writes what was queued, the consumer handles every polling event it
// receives. At quiescence the queue must be empty - each accepted element was either announced or
// its producer's later elements were.
func H_C05_slowsend() {
	const c = 4
	mem := make([]byte, queueHeaderLength+c*queueElementLen)
	prodQ := createQueueFromBytes(mem, c)
	consQ := mappingQueueFromBytes(mem)
	var inflight uint32
	capCh := vfShape("sendcap", 1, 2)
	a := &Session{
		queueManager:          &queueManager{sendQueue: prodQ},
		eventConn:             &c05Conn{inflight: &inflight},
		sendCh:                make(chan sendReady, capCh),
		notifyContinueWriteCh: make(chan struct{}, 1),
		shutdownCh:            make(chan struct{}),
		communicationVersion:  2,
		config:                &Config{ConnectionWriteTimeout: 10},
	}
	b := &Session{
		queueManager: &queueManager{recvQueue: consQ},
		streams:      map[uint32]*Stream{},
		isClient:     true,
	}
	// the connection is busy and the send loop's queue is full of other writers' events
	a.writing = 1
	other := make([]byte, headerSize+4)
	header(other).encode(headerSize+4, 2, typeStreamClose)
	for i := 0; i < capCh; i++ {
		a.sendCh <- sendReady{nil, other, nil}
	}
	P := vfShape("producers", 1, 2)
	var accepted [2]bool
	var returned [2]bool
	for t := 0; t < P; t++ {
		t := t
		go func() {
			e := queueElement{seqID: uint32(t + 1), offsetInShmBuf: 0, status: uint32(streamClosed)}
			if err := a.sendQueue().put(e); err == nil {
				accepted[t] = true
				a.wakeUpPeer()
			}
			returned[t] = true
		}()
	}
	vfRunGoroutines() // producers enqueue; the first one's wake-up waits in the slow path; time passes
	// the connection becomes free: the real send loop runs and writes what is queued
	a.writing = 0
	asyncNotify(a.notifyContinueWriteCh)
	go a.send()
	vfRunGoroutines()
	// process B handles every polling event that was written
	for i := 0; i < 8; i++ {
		if inflight > 0 {
			inflight--
			handlePolling(b, nil, nil)
		}
	}
	vfRunGoroutines()
	for t := 0; t < P; t++ {
		vfAssert(returned[t], "C05.producer-returns-once-the-connection-is-free")
	}
	if inflight == 0 && len(a.sendCh) == 0 {
		vfAssert(consQ.size() == 0, "C05.no-stranded-element")
		vfCover("C05.slowsend.quiescent")
	}
	// a later, unrelated producer must not be needed - but it must still work
	e := queueElement{seqID: 9, offsetInShmBuf: 0, status: uint32(streamClosed)}
	vfAssert(a.sendQueue().put(e) == nil, "C05.later-put")
	a.wakeUpPeer()
	vfRunGoroutines()
	for i := 0; i < 8; i++ {
		if inflight > 0 {
			inflight--
			handlePolling(b, nil, nil)
		}
	}
	vfAssert(consQ.size() == 0, "C05.later-element-is-announced-too")
	close(a.shutdownCh)
	vfRunGoroutines()
	vfCover("C05.slowsend.end")
}
