//go:build verif

package shmipc

import (
	"errors"
	"net"
	"os"
	"time"

	syscall "golang.org/x/sys/unix"
)

// C12: the real newSession on both ends (client and server), i.e. initMemManager, initProtocol
// with its goroutine and time-out, protocolAdaptor.getProtocolInitializer, protocolInitializerV3
// (client and server side), handleExchangeVersion, sendMemFdToPeer, handleShareMemoryByMemFd,
// generate/extractShmMetadata, blockReadFull/blockWriteFull/waitEventHeader, and the failure
// clean-up of newSession - executed symbolically with every goroutine as a coroutine (go_policy
// coro). The two ends only interact through the socket, a pair of blocking byte FIFOs plus a FIFO of
// passed descriptors: a Kahn network, so the one schedule examined stands for all of them; the
// initialisation time-outs fire only when no party can proceed ("the peer stopped answering").
//
// Environment (stubs): the kernel socket (Read/Write accept at most `chunk` bytes per call,
// Sendmsg/Recvmsg pass descriptors), the memfd/mmap OS model of C14, getConnDupFd, the event
// dispatcher, VerifyConfig (the harness uses a small configuration). Fault: one party stops
// answering in front of its k-th system call on the socket (k enumerated).

type c12Pipe struct {
	ch   chan []byte
	rest []byte
	fds  chan [2]int
}

var c12 struct {
	in       [2]*c12Pipe // in[w]: what party w reads (0 client, 1 server)
	never    chan struct{}
	calls    [2]int
	stallWho int
	stallAt  int
	chunk    int
	file     [2]*os.File
	fdOf     [2]int
	sent     [2]int // descriptors of the last UnixRights call
	got      [2]int
	inflight int
	twoProcs bool
	procs    [3]*globalBufferManager // per process: the harness itself, the client, the server
	osCalls  int
	osFailAt int
	fileType bool
	die      bool
	dead     [2]bool
}

// the engine calls this whenever another party gets to run (root: 0 client, 1 server, -1 harness):
// with two processes each party has its own table of buffer managers, as in a real deployment
func c12OnSwitch(root int) {
	if c12.twoProcs {
		bufferManagers = c12.procs[root+1]
	}
}

// the n-th Fstat/Mmap call of the run fails (osFailAt; 0: none)
func c12OSFault() bool {
	c12.osCalls++
	return c12.osCalls == c12.osFailAt
}
func vfstub_c12_Fstat(fd int, st *syscall.Stat_t) error {
	if c12OSFault() {
		return syscall.EIO
	}
	return vfstub14_Fstat(fd, st)
}
func vfstub_c12_Mmap(fd int, offset int64, length int, prot int, flags int) ([]byte, error) {
	if c12OSFault() {
		return nil, syscall.ENOMEM
	}
	return vfstub14_Mmap(fd, offset, length, prot, flags)
}

type c12NetConn struct{ who int }

func (c12NetConn) Read(b []byte) (int, error)         { return 0, nil }
func (c12NetConn) Write(b []byte) (int, error)        { return len(b), nil }
func (c12NetConn) Close() error                       { return nil }
func (c12NetConn) LocalAddr() net.Addr                { return c14Addr{} }
func (c12NetConn) RemoteAddr() net.Addr               { return c14Addr{} }
func (c12NetConn) SetDeadline(t time.Time) error      { return nil }
func (c12NetConn) SetReadDeadline(t time.Time) error  { return nil }
func (c12NetConn) SetWriteDeadline(t time.Time) error { return nil }

type c12Dispatcher struct{ c13Dispatcher }

func (d *c12Dispatcher) newConnection(connFd *os.File) eventConn { return &c16Conn{} }

func vfstub_c12_VerifyConfig(config *Config) error { return nil }
func vfstub_c12_ensureDispatcher()                 {}
func vfstub_c12_getConnDupFd(conn net.Conn) (*os.File, error) {
	return c12.file[conn.(c12NetConn).who], nil
}
func vfstub_c12_Fd(f *os.File) uintptr {
	if f == c12.file[0] {
		return 10
	}
	if f == c12.file[1] {
		return 20
	}
	return uintptr(100 + c12Handle(f))
}

func c12Who(fd int) int {
	if fd == c12.fdOf[0] {
		return 0
	}
	return 1
}

// a party that stopped answering never returns from its next system call on the socket
func c12Tick(who int) {
	if who == c12.stallWho && c12.calls[who] >= c12.stallAt {
		if c12.die && !c12.dead[who] {
			// the process dies: the kernel closes its end of the socket - the peer reads what was
			// sent so far and then end-of-file, its writes fail
			c12.dead[who] = true
			close(c12.in[1-who].ch)
			close(c12.in[1-who].fds)
		}
		<-c12.never
	}
	c12.calls[who]++
}

func vfstub_c12_Read(fd int, p []byte) (int, error) {
	who := c12Who(fd)
	c12Tick(who)
	pp := c12.in[who]
	if len(pp.rest) == 0 {
		pp.rest = <-pp.ch // a closed pipe yields nothing: end of file
	}
	n := copy(p, pp.rest)
	pp.rest = pp.rest[n:]
	return n, nil
}

func vfstub_c12_Write(fd int, p []byte) (int, error) {
	who := c12Who(fd)
	c12Tick(who)
	if c12.dead[1-who] {
		return 0, syscall.EPIPE
	}
	n := len(p)
	if c12.chunk > 0 && n > c12.chunk {
		n = c12.chunk
	}
	b := make([]byte, n)
	copy(b, p[:n])
	c12.in[1-who].ch <- b
	return n, nil
}

func vfstub_c12_UnixRights(fds ...int) []byte {
	c12.sent[0], c12.sent[1] = fds[0], fds[1]
	return make([]byte, syscall.CmsgSpace(len(fds)*4))
}

func vfstub_c12_Sendmsg(fd int, p, oob []byte, to syscall.Sockaddr, flags int) error {
	who := c12Who(fd)
	c12Tick(who)
	// descriptors in flight hold a reference to their files
	c14OS.fdOpen[c12.sent[0]-100]++
	c14OS.fdOpen[c12.sent[1]-100]++
	if c12.dead[1-who] {
		c14OS.fdOpen[c12.sent[0]-100]--
		c14OS.fdOpen[c12.sent[1]-100]--
		return syscall.EPIPE
	}
	c12.inflight++
	c12.in[1-who].fds <- c12.sent
	return nil
}

func vfstub_c12_Recvmsg(fd int, p, oob []byte, flags int) (n, oobn int, recvflags int, from syscall.Sockaddr, err error) {
	who := c12Who(fd)
	c12Tick(who)
	got, ok := <-c12.in[who].fds
	if !ok {
		return 0, 0, 0, nil, nil // end of file: no control message
	}
	c12.got = got
	c12.inflight--
	return 0, len(oob), 0, nil, nil
}

func vfstub_c12_ParseSCM(b []byte) ([]syscall.SocketControlMessage, error) {
	return make([]syscall.SocketControlMessage, 1), nil
}

func vfstub_c12_ParseUnixRights(m *syscall.SocketControlMessage) ([]int, error) {
	return []int{c12.got[0], c12.got[1]}, nil
}

// ---- the /dev/shm file back-end over the same OS model (files of c14OS, named) ----

type c12File struct {
	path   string
	exists bool
	idx    int // index into c14OS.files
}

var c12fs struct {
	files   [4]c12File
	n       int
	handles [16]*os.File
	hIdx    [16]int
	nh      int
}

var errC12NoEnt = errors.New("no such file or directory")
var errC12Exist = errors.New("file exists")

func c12Lookup(path string) int {
	for i := 0; i < 4; i++ {
		if i < c12fs.n && c12fs.files[i].exists && c12fs.files[i].path == path {
			return i
		}
	}
	return -1
}

type c12FI struct{ size int64 }

func (c12FI) Name() string       { return "f" }
func (f c12FI) Size() int64      { return f.size }
func (c12FI) Mode() os.FileMode  { return 0 }
func (c12FI) ModTime() time.Time { return time.Time{} }
func (c12FI) IsDir() bool        { return false }
func (c12FI) Sys() interface{}   { return nil }

func vfstub_c12_pathExists(path string) bool                  { return c12Lookup(path) >= 0 }
func vfstub_c12_canCreate(size uint64, path string) bool      { return true }
func vfstub_c12_MkdirAll(path string, perm os.FileMode) error { return nil }
func vfstub_c12_OpenFile(name string, flag int, perm os.FileMode) (*os.File, error) {
	i := c12Lookup(name)
	if i < 0 {
		if flag&os.O_CREATE == 0 {
			return nil, errC12NoEnt
		}
		o := &c14OS
		c12fs.files[c12fs.n] = c12File{path: name, exists: true, idx: o.nfiles}
		o.nfiles++
		i = c12fs.n
		c12fs.n++
	} else if flag&os.O_EXCL != 0 {
		return nil, errC12Exist
	}
	f := &os.File{}
	c12fs.handles[c12fs.nh] = f
	c12fs.hIdx[c12fs.nh] = c12fs.files[i].idx
	c12fs.nh++
	c14OS.fdOpen[c12fs.files[i].idx]++
	return f, nil
}
func c12Handle(f *os.File) int {
	for k := 0; k < 16; k++ {
		if k < c12fs.nh && c12fs.handles[k] == f {
			return c12fs.hIdx[k]
		}
	}
	return -1
}
func vfstub_c12_Truncate(f *os.File, size int64) error {
	return vfstub14_Ftruncate(100+c12Handle(f), size)
}
func vfstub_c12_Stat(f *os.File) (os.FileInfo, error) {
	if c12OSFault() {
		return nil, syscall.EIO
	}
	return c12FI{int64(c14OS.files[c12Handle(f)].size)}, nil
}
func vfstub_c12_FileClose(f *os.File) error { return vfstub14_Close(100 + c12Handle(f)) }
func vfstub_c12_Remove(name string) error {
	i := c12Lookup(name)
	if i < 0 {
		return errC12NoEnt
	}
	c12fs.files[i].exists = false
	return nil
}

func c12Config() *Config {
	if c12.fileType {
		return &Config{MemMapType: MemMapTypeDevShmFile, ShareMemoryBufferCap: 248, QueueCap: 2,
			ShareMemoryPathPrefix: "p", QueuePath: "q", InitializeTimeout: time.Second,
			BufferSliceSizes: []*SizePercentPair{{4, 50}, {8, 50}}}
	}
	return &Config{MemMapType: MemMapTypeMemFd, ShareMemoryBufferCap: 248, QueueCap: 2,
		ShareMemoryPathPrefix: "p", QueuePath: "q", InitializeTimeout: time.Second,
		BufferSliceSizes: []*SizePercentPair{{4, 50}, {8, 50}}}
}

func H_C12_handshake() {
	c14OS = osModel{}
	defaultDispatcher = &c12Dispatcher{}
	for w := 0; w < 2; w++ {
		c12.in[w] = &c12Pipe{ch: make(chan []byte, 64), fds: make(chan [2]int, 2)}
		c12.file[w] = c12NewFile(w)
		c12.fdOf[w] = int(c12.file[w].Fd())
		c12.calls[w] = 0
	}
	c12.never = make(chan struct{})
	c12.inflight = 0
	c12.fileType = vfShape("mtype", 0, 1) == 1
	c12fs.n, c12fs.nh = 0, 0
	c12.twoProcs = vfShape("procs", 1, 2) == 2
	if c12.fileType {
		// the stubs of os.File methods have no native counterpart
		vfNote("replay:model-only (file back-end over the OS model)")
	}
	if c12.twoProcs {
		// one native process cannot hold two copies of the package-level buffer-manager table
		vfNote("replay:model-only (client and server as two processes)")
	}
	for i := 0; i < 3; i++ {
		c12.procs[i] = &globalBufferManager{bms: make(map[string]*bufferManager, 8)}
	}
	bufferManagers = c12.procs[0]
	c12.osCalls = 0
	c12.osFailAt = 0
	c12.chunk = vfShape("chunk", 0, 2) * 3 // 0: the kernel takes every write whole; else 3 or 6 bytes per call
	c12.stallWho = vfShape("stall", 0, 2) - 1
	c12.stallAt = 0
	c12.die = false
	c12.dead[0], c12.dead[1] = false, false
	if c12.stallWho >= 0 {
		c12.stallAt = vfShape("at", 0, 24)
		c12.die = vfShape("dies", 0, 1) == 1
	} else {
		c12.osFailAt = vfShape("osfail", 0, 9)
	}
	var sess [2]*Session
	var errs [2]error
	var done [2]bool
	go func() {
		sess[0], errs[0] = newSession(c12Config(), c12NetConn{0}, true)
		done[0] = true
	}()
	go func() {
		sess[1], errs[1] = newSession(c12Config(), c12NetConn{1}, false)
		done[1] = true
	}()
	vfRunGoroutines()
	if c12.die {
		// the peer process died in front of its k-th socket call: the survivor's call returns - with
		// an error unless the dead end had already done everything the survivor waits for
		sv := 1 - c12.stallWho
		vfAssert(done[sv], "C12.session-establishment-returns-when-the-peer-dies")
		if done[sv] && errs[sv] != nil {
			vfAssert(sess[sv] == nil, "C12.failure-yields-no-session")
		}
		vfCover("opt:C12.peer-died")
		return
	}
	// both calls return: with a session, or with an error once the time-out fired
	vfAssert(done[0], "C12.client-session-establishment-returns")
	vfAssert(done[1], "C12.server-session-establishment-returns")
	if !done[0] || !done[1] {
		return
	}
	if c12.fileType && errs[0] == nil && errs[1] != nil {
		// protocol 2 has no acknowledgement: the client's call returns after sending the paths.
		// F-V2NOACK (known finding): when the server then fails, the client holds a session whose
		// peer never existed; the client's resources are (legitimately, from its view) still there
		vfAssert(false, "F-V2NOACK/C12.both-ends-agree-on-success-or-failure")
		vfAssert(sess[0] != nil && sess[1] == nil, "C12.results-match-errors")
		vfCover("opt:C12.v2-client-alone")
		return
	}
	if c12.stallWho < 0 {
		vfAssert((errs[0] == nil) == (errs[1] == nil), "C12.both-ends-agree-on-success-or-failure")
	} else {
		// the end that stopped answering after the other end's last step fails alone (its own call
		// is pending in the kernel until its time-out); the reverse must not happen
		vfAssert(errs[c12.stallWho] != nil || errs[1-c12.stallWho] == nil, "C12.the-answering-end-does-not-fail-alone")
		if errs[c12.stallWho] != nil && errs[1-c12.stallWho] == nil {
			vfAssert(sess[c12.stallWho] == nil && sess[1-c12.stallWho] != nil, "C12.results-match-errors")
			vfCover("opt:C12.stalled-after-the-peers-last-step")
			return
		}
	}
	if errs[0] == nil && errs[1] == nil {
		c, s := sess[0], sess[1]
		vfAssert(c != nil && s != nil, "C12.success-yields-sessions")
		vfAssert(c.communicationVersion == s.communicationVersion, "C12.both-ends-use-the-same-version")
		if c12.fileType {
			vfAssert(c.communicationVersion == 2, "C12.file-client-and-current-server-use-protocol-2")
		} else {
			vfAssert(c.communicationVersion == maxSupportProtoVersion, "C12.memfd-client-and-current-server-use-the-highest-common-version")
		}
		vfAssert(s.handshakeDone, "C12.server-handshake-done")
		vfAssert(c.queueManager != nil && s.queueManager != nil && c.bufferManager != nil && s.bufferManager != nil, "C12.both-ends-have-their-managers")
		vfAssert(vfSameObject(c.queueManager.mem, s.queueManager.mem), "C12.both-ends-map-the-same-queue-memory")
		vfAssert(vfSameObject(c.bufferManager.mem, s.bufferManager.mem), "C12.both-ends-map-the-same-buffer-memory")
		vfAssert(len(c.queueManager.mem) == len(s.queueManager.mem), "C12.queue-mappings-have-the-same-size")
		// what one end sends the other receives, both ways
		id := vfU32()
		vfAssert(c.queueManager.sendQueue.put(queueElement{seqID: id, offsetInShmBuf: 7, status: 1}) == nil, "C12.client-can-enqueue")
		e1, perr := s.queueManager.recvQueue.pop()
		vfAssert(perr == nil && e1.seqID == id && e1.offsetInShmBuf == 7, "C12.server-receives-what-the-client-sends")
		vfAssert(s.queueManager.sendQueue.put(queueElement{seqID: id + 1, offsetInShmBuf: 9, status: 1}) == nil, "C12.server-can-enqueue")
		e2, perr2 := c.queueManager.recvQueue.pop()
		vfAssert(perr2 == nil && e2.seqID == id+1 && e2.offsetInShmBuf == 9, "C12.client-receives-what-the-server-sends")
		vfAssert(c.queueManager.recvQueue.isEmpty() && s.queueManager.recvQueue.isEmpty(), "C12.queues-are-not-cross-wired-onto-themselves")
		vfAssert(c12.stallWho < 0 || c12.calls[c12.stallWho] <= c12.stallAt, "C12.success-needs-every-step")
		vfCover("opt:C12.established")
		return
	}
	// failure: an error on both ends (the end that stopped answering may not have noticed yet: its
	// own call is still pending in the kernel and only its time-out ends it), nothing left behind
	for w := 0; w < 2; w++ {
		if errs[w] != nil {
			vfAssert(sess[w] == nil, "C12.failure-yields-no-session")
		}
	}
	vfAssert(errs[0] != nil && errs[1] != nil, "C12.failure-is-reported-on-both-ends")
	// descriptors still in flight disappear with the sockets
	for c12.inflight > 0 {
		c12.inflight--
		c14OS.fdOpen[c12.sent[0]-100]--
		c14OS.fdOpen[c12.sent[1]-100]--
	}
	// (file 0: buffers, file 1: queues - the order in which initMemManager creates them)
	vfAssert(c14OS.mapped[0] == 0, "C12.no-buffer-mapping-left-after-failure")
	vfAssert(c14OS.mapped[1] == 0, "C12.no-queue-mapping-left-after-failure")
	vfAssert(c14OS.fdOpen[0] == 0, "C12.no-buffer-descriptor-left-after-failure")
	vfAssert(c14OS.fdOpen[1] == 0, "C12.no-queue-descriptor-left-after-failure")
	for i := 0; i < 4; i++ {
		if i < c12fs.n {
			vfAssert(!c12fs.files[i].exists, "C12.no-file-left-after-failure")
		}
	}
	vfCover("opt:C12.failed")
}
