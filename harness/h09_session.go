//go:build verif

package shmipc

import "sync"

// Session model SM (sequential): two real Session values A (client) and B (server) over one real
// buffer manager (create + mapping view) and one real queue pair cross-wired as the queue managers
// do; two ordered control "wires" (A->B, B->A) fed by harness eventConns and by the stubbed
// waitForSend. Every step of a history is a call of the real API: OpenStream, BufferWriter
// WriteBytes, Flush, Close on either end, handleEvents on the receiving side (which dispatches to
// handlePolling / handleFallbackData / handleStreamClose), AcceptStream, BufferReader ReadBytes,
// ReleasePreviousRead.  Used by C09 (everything comes back), C10 (close is final, propagates, is
// reported) and C07 (isolation: a stream only ever gets its own bytes).

type smConn struct{ wire *[][]byte }

func (c *smConn) commitRead(n int)                       {}
func (c *smConn) setCallback(cb eventConnCallback) error { return nil }
func (c *smConn) write(data []byte) error {
	*c.wire = append(*c.wire, data)
	return nil
}
func (c *smConn) writev(data ...[]byte) error { return nil }
func (c *smConn) close() error                { return nil }

var smWireAB, smWireBA [][]byte

func vfstub_sm_waitForSend(s *Session, hdr header, body []byte) error {
	if s.isClient {
		smWireAB = append(smWireAB, body)
	} else {
		smWireBA = append(smWireBA, body)
	}
	return nil
}

type smEnd struct {
	stream   *Stream
	model    [64]byte // bytes flushed towards this end, in order
	sent     int      // flushed towards this end
	read     int      // consumed by this end
	closed   bool     // this end called Close
	lastSt   uint32
	sawEOF   bool
}

type smWorld struct {
	mem    []byte
	bmA    *bufferManager
	bmB    *bufferManager
	A, B   *Session
	a, b   [2]smEnd // per stream index: the A-side end and the B-side end
	nstr   int
	hold   int
}

func smSetup() *smWorld {
	w := &smWorld{}
	w.mem = make([]byte, 248)
	var err error
	w.bmA, err = createBufferManager([]*SizePercentPair{{4, 50}, {8, 50}}, "", w.mem, 0)
	vfAssert(err == nil, "SM.create")
	w.bmB, err = mappingBufferManager("", w.mem, 0)
	vfAssert(err == nil, "SM.mapping")
	const qc = 2
	half := queueHeaderLength + qc*queueElementLen
	qmem := make([]byte, 2*half)
	qa := &queueManager{sendQueue: createQueueFromBytes(qmem[:half], qc), recvQueue: createQueueFromBytes(qmem[half:], qc)}
	qb := &queueManager{sendQueue: mappingQueueFromBytes(qmem[half:]), recvQueue: mappingQueueFromBytes(qmem[:half])}
	smWireAB, smWireBA = nil, nil
	w.A = &Session{bufferManager: w.bmA, queueManager: qa, eventConn: &smConn{wire: &smWireAB},
		streams: map[uint32]*Stream{}, isClient: true, communicationVersion: 2, config: &Config{},
		sendCh: make(chan sendReady, 4), notifyContinueWriteCh: make(chan struct{}, 1),
		acceptCh: make(chan *Stream, 4), shutdownCh: make(chan struct{})}
	w.B = &Session{bufferManager: w.bmB, queueManager: qb, eventConn: &smConn{wire: &smWireBA},
		streams: map[uint32]*Stream{}, isClient: false, communicationVersion: 2, config: &Config{},
		sendCh: make(chan sendReady, 4), notifyContinueWriteCh: make(chan struct{}, 1),
		acceptCh: make(chan *Stream, 4), shutdownCh: make(chan struct{})}
	debugMode = true
	w.hold = vfShape("hold", 0, 2)
	for i := range w.bmA.lists {
		for k := 0; k < w.hold; k++ {
			w.bmA.lists[i].pop()
		}
	}
	return w
}

func (w *smWorld) open() {
	s, err := w.A.OpenStream()
	vfAssert(err == nil && s != nil, "SM.open")
	w.a[w.nstr].stream = s
	w.nstr++
}

// deliver: the receiving side's event loop consumes everything on its wire, in order
func (w *smWorld) deliverAB() {
	for i := range smWireAB {
		n, err := w.B.handleEvents(smWireAB[i])
		vfAssert(err == nil && n == len(smWireAB[i]), "SM.events-consumed-by-B")
	}
	smWireAB = nil
	// streams accepted by the server surface through AcceptStream
	for len(w.B.acceptCh) > 0 {
		s, err := w.B.AcceptStream()
		vfAssert(err == nil && s != nil, "SM.accept")
		for i := 0; i < w.nstr; i++ {
			if w.a[i].stream.id == s.id {
				vfAssert(w.b[i].stream == nil, "C19.stream-surfaces-exactly-once")
				w.b[i].stream = s
			}
		}
	}
}

func (w *smWorld) deliverBA() {
	for i := range smWireBA {
		n, err := w.A.handleEvents(smWireBA[i])
		vfAssert(err == nil && n == len(smWireBA[i]), "SM.events-consumed-by-A")
	}
	smWireBA = nil
}

// write+flush k bytes from end `from` of stream i to its peer
func (w *smWorld) send(i int, fromA bool, k int) {
	var src, dst *smEnd
	if fromA {
		src, dst = &w.a[i], &w.b[i]
	} else {
		src, dst = &w.b[i], &w.a[i]
	}
	if src.stream == nil {
		vfPrune()
	}
	data := vfBytes(k)
	n, err := src.stream.BufferWriter().WriteBytes(data)
	vfAssert(err == nil && n == k, "SM.write")
	ferr := src.stream.Flush(false)
	st := src.stream.state
	if src.closed || st != uint32(streamOpened) {
		vfAssert(ferr == ErrStreamClosed, "C10.flush-after-close-fails")
		vfAssert(src.stream.BufferWriter().Len() == 0, "C10.failed-flush-drops-the-data")
		return
	}
	if ferr == ErrQueueFull {
		// the peer does not consume: Flush gives up after its retries and drops the message
		vfAssert(src.stream.BufferWriter().Len() == 0, "C11.flush-returns-when-queue-stays-full")
		return
	}
	vfAssert(ferr == nil, "SM.flush")
	for j := 0; j < k; j++ {
		dst.model[dst.sent+j] = data[j]
	}
	dst.sent += k
}

// read k bytes at end (A or B) of stream i; k <= what was delivered and not yet read
func (w *smWorld) recv(i int, atA bool, k int) {
	var e *smEnd
	if atA {
		e = &w.a[i]
	} else {
		e = &w.b[i]
	}
	if e.stream == nil {
		vfPrune()
	}
	if k > e.sent-e.read && !e.closed && e.stream.state == uint32(streamOpened) {
		vfPrune() // the read would block: not part of the sequential space
	}
	b, err := e.stream.BufferReader().ReadBytes(k)
	if e.closed {
		vfAssert(err == ErrStreamClosed || err == ErrEndOfStream, "C10.read-after-local-close-fails")
		return
	}
	avail := e.sent - e.read
	if k <= avail {
		// everything flushed before has been delivered by the harness before a read is attempted
		vfAssert(err == nil && len(b) == k, "C07.read-gets-what-was-flushed")
		for j := 0; j < k; j++ {
			vfAssert(b[j] == e.model[e.read+j], "C07.only-own-bytes-in-order")
		}
		e.read += k
		return
	}
	// more than there is: only legal outcome without blocking is end-of-stream after peer close
	if e.stream.state == uint32(streamOpened) {
		vfPrune() // would block: not part of the sequential space
	}
	vfAssert(err == ErrEndOfStream || err == ErrStreamClosed, "C10.eof-after-peer-close")
	if avail == 0 {
		e.sawEOF = true
	}
}

func (w *smWorld) closeEnd(i int, atA bool) {
	var e *smEnd
	if atA {
		e = &w.a[i]
	} else {
		e = &w.b[i]
	}
	if e.stream == nil {
		vfPrune()
	}
	err := e.stream.Close()
	vfAssert(err == nil, "C10.close-returns-nil")
	e.closed = true
	vfAssert(e.stream.state == uint32(streamClosed), "C10.closed-after-local-close")
	sess := w.B
	if atA {
		sess = w.A
	}
	vfAssert(sess.streams[e.stream.id] == nil, "C10.closed-stream-not-active")
}

// state only moves forward: opened(0) -> halfClosed(2) -> closed(1)
func smRank(st uint32) int {
	switch st {
	case uint32(streamOpened):
		return 0
	case uint32(streamHalfClosed):
		return 1
	}
	return 2
}

func (w *smWorld) monotone() {
	for i := 0; i < w.nstr; i++ {
		for side := 0; side < 2; side++ {
			e := &w.a[i]
			if side == 1 {
				e = &w.b[i]
			}
			if e.stream == nil {
				continue
			}
			st := e.stream.state
			vfAssert(smRank(st) >= smRank(e.lastSt), "C10.state-only-moves-forward")
			e.lastSt = st
		}
	}
}

func (w *smWorld) allBack() bool {
	for i := range w.bmA.lists {
		l := w.bmA.lists[i]
		h := w.hold
		if h > int(*l.cap)-1 {
			h = int(*l.cap) - 1
		}
		if int(*l.size) != int(*l.cap)-h || int(*l.size) != computeFreeSliceNum(l) {
			return false
		}
	}
	return true
}

// H_SM_history: one or two streams, a history of L steps (shape-coded), then both ends close
// everything, all events are delivered, and every buffer must be back.
func H_SM_history() {
	w := smSetup()
	ns := vfShape("streams", 1, 2)
	for i := 0; i < ns; i++ {
		w.open()
	}
	L := vfShape("steps", 1, 6)
	for step := 0; step < L; step++ {
		op := vfShape("op", 0, 8)
		i := 0
		if ns == 2 {
			i = vfShape("which", 0, 1)
		}
		switch op {
		case 0:
			w.send(i, true, []int{3, 9}[vfShape("size", 0, 1)])
		case 1:
			w.deliverAB()
		case 2:
			w.recv(i, false, []int{2, 3, 9, 10}[vfShape("rsize", 0, 3)])
		case 3:
			if w.b[i].stream == nil {
				vfPrune()
			}
			w.b[i].stream.BufferReader().ReleasePreviousRead()
		case 4:
			w.closeEnd(i, true)
		case 5:
			w.closeEnd(i, false)
		case 6:
			w.deliverBA()
		case 7:
			w.send(i, false, 3)
		default:
			w.recv(i, true, 3)
		}
		w.monotone()
	}
	// wind down: deliver what is in flight, both ends close every stream, deliver the closes
	w.deliverAB()
	w.deliverBA()
	for i := 0; i < w.nstr; i++ {
		if w.a[i].closed && w.b[i].stream != nil {
			// the peer observes the end of the stream after draining what was flushed
			st := w.b[i].stream.state
			vfAssert(st != uint32(streamOpened) || w.b[i].closed, "C10.close-propagates-to-peer")
		}
		if w.b[i].closed {
			st := w.a[i].stream.state
			vfAssert(st != uint32(streamOpened) || w.a[i].closed, "C10.close-propagates-to-peer")
		}
	}
	for i := 0; i < w.nstr; i++ {
		if !w.a[i].closed {
			w.a[i].stream.Close()
		}
		if w.b[i].stream != nil && !w.b[i].closed {
			w.b[i].stream.Close()
		}
	}
	w.deliverAB()
	w.deliverBA()
	w.monotone()
	vfAssert(len(w.A.streams) == 0, "C10.no-active-stream-left-on-A")
	vfAssert(w.allBack(), "C09.all-shared-memory-back-after-all-streams-closed")
	vfCover("SM.history.end")
}

// ---------------------------------------------------------------------------------------------
// C15(b): the stream pool over the session model.

func H_C15_pool() {
	w := smSetup()
	pool := newStreamPool(uint32(vfShape("poolcap", 1, 2)))
	pool.session.Store(w.A)
	sm := &SessionManager{pools: []*streamPool{pool}, config: &SessionManagerConfig{Config: &Config{}}}
	var held [2]*Stream // streams currently held by the two callers
	var everGot [6]*Stream
	ngot := 0
	L := vfShape("steps", 1, 7)
	for step := 0; step < L; step++ {
		op := vfShape("op", 0, 7)
		k := vfShape("caller", 0, 1)
		switch op {
		case 0: // GetStream
			if held[k] != nil {
				vfPrune()
			}
			s, err := sm.GetStream()
			vfAssert(err == nil && s != nil, "C15.get")
			vfAssert(s.IsOpen(), "C15.handed-out-stream-is-open")
			vfAssert(!s.Session().IsClosed(), "C15.handed-out-stream-on-live-session")
			vfAssert(s.recvBuf.Len() == 0 && len(s.pendingData.unread) == 0, "C15.handed-out-stream-carries-no-old-bytes")
			vfAssert(!s.inFallbackState && s.getCallbacks() == nil, "C15.handed-out-stream-is-clean")
			vfAssert(held[1-k] != s, "C15.not-handed-to-two-callers")
			held[k] = s
			everGot[ngot] = s
			ngot++
		case 1: // request
			if held[k] == nil {
				vfPrune()
			}
			data := vfBytes(3)
			held[k].BufferWriter().WriteBytes(data)
			vfAssert(held[k].Flush(false) == nil, "C15.request-flush")
		case 2:
			w.deliverAB()
		case 3: // the server answers on the stream of caller k
			if held[k] == nil {
				vfPrune()
			}
			bs := w.B.streams[held[k].id]
			if bs == nil || !bs.IsOpen() {
				vfPrune()
			}
			bs.BufferWriter().WriteBytes(vfBytes(3))
			vfAssert(bs.Flush(false) == nil, "C15.response-flush")
		case 4:
			w.deliverBA()
		case 5: // the caller reads the response
			if held[k] == nil {
				vfPrune()
			}
			held[k].pendingData.moveTo(held[k].recvBuf)
			if held[k].recvBuf.Len() < 3 {
				vfPrune()
			}
			_, err := held[k].BufferReader().ReadBytes(3)
			vfAssert(err == nil, "C15.read-response")
		case 6: // PutBack
			if held[k] == nil {
				vfPrune()
			}
			sm.PutBack(held[k])
			held[k] = nil
		default: // the server closes its end of some stream it knows (possibly a pooled, idle one)
			closed := false
			for i := 0; i < ngot; i++ {
				if bs := w.B.streams[everGot[i].id]; bs != nil && !closed {
					bs.Close()
					closed = true
				}
			}
			if !closed {
				vfPrune()
			}
		}
		// the active-stream count is what callers hold plus what the pool keeps
		nheld := 0
		for i := 0; i < 2; i++ {
			if held[i] != nil && held[i].state != uint32(streamClosed) {
				nheld++
			}
		}
		pooled := int(pool.tail - pool.head)
		vfAssert(w.A.GetActiveStreamCount() == nheld+pooled, "C15.active-count-is-held-plus-pooled")
	}
	vfCover("C15.pool.end")
}

// ---------------------------------------------------------------------------------------------
// C19(a): the net.Conn adapter (streamWrapper) follows the io.Reader / io.Writer contracts and
// closes once.
func H_C19_conn() {
	w := smSetup()
	w.open()
	var wgA, wgB sync.WaitGroup
	wgA.Add(1) // the listener's own reference
	wgB.Add(1)
	ca := newStreamWrapper(w.a[0].stream, nil, nil, &wgA)
	nw := vfShape("writes", 1, 2)
	total := 0
	var model [32]byte
	for i := 0; i < nw; i++ {
		k := []int{0, 1, 4, 9, 13}[vfShape("wlen", 0, 4)]
		p := vfBytes(k)
		n, err := ca.Write(p)
		vfAssert(err == nil && n == k, "C19.Write-delivers-all-of-p")
		for j := 0; j < k; j++ {
			model[total+j] = p[j]
		}
		total += k
	}
	w.deliverAB()
	if total == 0 {
		vfAssert(w.b[0].stream == nil, "C19.nothing-sent-nothing-surfaces")
		vfCover("opt:C19.conn.empty")
		return
	}
	vfAssert(w.b[0].stream != nil, "C19.stream-surfaces-at-the-server")
	cb := newStreamWrapper(w.b[0].stream, nil, nil, &wgB)
	got := 0
	nr := vfShape("reads", 1, 3)
	for i := 0; i < nr; i++ {
		k := vfShape("rlen", 0, 14)
		if got == total && k > 0 {
			vfPrune() // would block
		}
		p := make([]byte, k)
		n, err := cb.Read(p)
		if k == 0 {
			vfAssert(n == 0 && err == nil, "C19.Read-of-empty-p")
			continue
		}
		vfAssert(err == nil && n >= 1 && n <= k, "C19.Read-returns-1..len(p)")
		for j := 0; j < 14; j++ {
			if j < n {
				vfAssert(p[j] == model[got+j], "C19.Read-bytes-in-order")
			}
		}
		got += n
		vfAssert(got <= total, "C19.Read-never-invents-bytes")
	}
	// Close works as on a socket: idempotent, releases the connection's reference once
	vfAssert(ca.Close() == nil && ca.Close() == nil, "C19.Close-idempotent")
	vfAssert(w.a[0].stream.state == uint32(streamClosed), "C19.Close-closes-the-stream")
	wgA.Done() // the listener lets go: the counter must be exactly zero now (never negative)
	wgA.Wait()
	vfAssert(cb.Close() == nil && cb.Close() == nil, "C19.Close-idempotent")
	wgB.Done()
	wgB.Wait()
	vfCover("C19.conn.end")
}
