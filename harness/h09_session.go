//go:build verif

package shmipc

import (
	"sync"
	"sync/atomic"
	"time"
)

// Session model SM (sequential): two real Session values A (client) and B (server) over one real
// buffer manager (create + mapping view) and one real queue pair cross-wired as the queue managers
// do; two ordered control "wires" (A->B, B->A) fed by harness eventConns and by the stubbed
// waitForSend. Every step of a history is a call of the real API: OpenStream, BufferWriter
// WriteBytes, Flush, Close on either end, handleEvents on the receiving side (which dispatches to
// handlePolling / handleFallbackData / handleStreamClose), AcceptStream, BufferReader ReadBytes,
// ReleasePreviousRead.  Used by C09 (everything comes back), C10 (close is final, propagates, is
// reported) and C07 (isolation: a stream only ever gets its own bytes).

type smConn struct{ wire *[][]byte }

func (c *smConn) commitRead(n int)                       {}
func (c *smConn) setCallback(cb eventConnCallback) error { return nil }
func (c *smConn) write(data []byte) error {
	*c.wire = append(*c.wire, data)
	return nil
}
func (c *smConn) writev(data ...[]byte) error { return nil }
func (c *smConn) close() error                { return nil }

var smWireAB, smWireBA [][]byte

func vfstub_sm_waitForSend(s *Session, hdr header, body []byte) error {
	if s.shutdown != 0 {
		// the real call selects on shutdownCh and gives up with the session's shutdown error
		return s.shutdownErr
	}
	if s.isClient {
		smWireAB = append(smWireAB, body)
	} else {
		smWireBA = append(smWireBA, body)
	}
	return nil
}

type smEnd struct {
	stream    *Stream
	model     [160]byte // bytes flushed towards this end, in order
	sent      int       // flushed towards this end
	deliv     int       // ... of which delivered to this end's session
	read      int       // consumed by this end
	closed    bool      // this end called Close
	lastSt    uint32
	sawEOF    bool
	overtaken bool // closed by its sender while its socket-fallback data was still on the wire
}

type smWorld struct {
	mem    []byte
	bmA    *bufferManager
	bmB    *bufferManager
	A, B   *Session
	a, b   [2]smEnd // per stream index: the A-side end and the B-side end
	nstr   int
	hold   int
	rdA    [96]byte // connection read buffers: every control event passes through them and the
	rdB    [96]byte // next one overwrites it, as in the event loop
	extra  [4]*Stream
	nextra int
}

func smSetup() *smWorld {
	w := &smWorld{}
	w.mem = make([]byte, 248)
	var err error
	w.bmA, err = createBufferManager([]*SizePercentPair{{4, 50}, {8, 50}}, "", w.mem, 0)
	vfAssert(err == nil, "SM.create")
	w.bmB, err = mappingBufferManager("", w.mem, 0)
	vfAssert(err == nil, "SM.mapping")
	const qc = 2
	half := queueHeaderLength + qc*queueElementLen
	qmem := make([]byte, 2*half)
	qa := &queueManager{sendQueue: createQueueFromBytes(qmem[:half], qc), recvQueue: createQueueFromBytes(qmem[half:], qc)}
	qb := &queueManager{sendQueue: mappingQueueFromBytes(qmem[half:]), recvQueue: mappingQueueFromBytes(qmem[:half])}
	smWireAB, smWireBA = nil, nil
	w.A = &Session{bufferManager: w.bmA, queueManager: qa, eventConn: &smConn{wire: &smWireAB},
		streams: map[uint32]*Stream{}, isClient: true, communicationVersion: 2, config: &Config{},
		sendCh: make(chan sendReady, 4), notifyContinueWriteCh: make(chan struct{}, 1),
		acceptCh: make(chan *Stream, 4), shutdownCh: make(chan struct{})}
	w.B = &Session{bufferManager: w.bmB, queueManager: qb, eventConn: &smConn{wire: &smWireBA},
		streams: map[uint32]*Stream{}, isClient: false, communicationVersion: 2, config: &Config{},
		sendCh: make(chan sendReady, 4), notifyContinueWriteCh: make(chan struct{}, 1),
		acceptCh: make(chan *Stream, 4), shutdownCh: make(chan struct{})}
	debugMode = true
	w.hold = vfShape("hold", 0, 2)
	for i := range w.bmA.lists {
		for k := 0; k < w.hold; k++ {
			w.bmA.lists[i].pop()
		}
	}
	return w
}

func (w *smWorld) open() {
	s, err := w.A.OpenStream()
	vfAssert(err == nil && s != nil, "SM.open")
	w.a[w.nstr].stream = s
	w.nstr++
}

// deliver: the receiving side's event loop consumes everything on its wire, in order
func (w *smWorld) deliverAB() {
	for len(smWireAB) > 0 {
		ev := smWireAB[0]
		smWireAB = smWireAB[1:]
		w.eventToB(ev)
	}
	for i := 0; i < w.nstr; i++ {
		w.b[i].deliv = w.b[i].sent
	}
	// streams accepted by the server surface through AcceptStream
	for len(w.B.acceptCh) > 0 {
		s, err := w.B.AcceptStream()
		vfAssert(err == nil && s != nil, "SM.accept")
		for i := 0; i < w.nstr; i++ {
			if w.a[i].stream.id == s.id {
				smAssert(smZombie(w.b[i].closed, s), "F-ZOMBIE", w.b[i].stream == nil, "C19.stream-surfaces-exactly-once")
				if w.b[i].stream != nil {
					// the id surfaced a second time (data for a stream the server had already
					// closed): the application closes what it accepts
					w.extra[w.nextra] = s
					w.nextra++
				} else {
					w.b[i].stream = s
				}
			}
		}
	}
}

// eventToB: one control event arrives in the server's connection read buffer and is handled
func (w *smWorld) eventToB(ev []byte) {
	vfAssert(len(ev) <= len(w.rdB), "SM.event-fits-read-buffer")
	copy(w.rdB[:], ev)
	n, err := w.B.handleEvents(w.rdB[:len(ev)])
	vfAssert(err == nil && n == len(ev), "SM.events-consumed-by-B")
}

// zombie: the stream surfaced for an id the server had already closed carries data (F-ZOMBIE);
// without data nothing may re-create a closed stream
func smZombie(closed bool, s *Stream) bool {
	if !closed || s == nil {
		return false
	}
	return len(s.pendingData.unread) > 0 || s.recvBuf.Len() > 0
}

func (w *smWorld) acceptAll() {
	for len(w.B.acceptCh) > 0 {
		s, err := w.B.AcceptStream()
		vfAssert(err == nil && s != nil, "SM.accept")
		for i := 0; i < w.nstr; i++ {
			if w.a[i].stream.id == s.id {
				smAssert(smZombie(w.b[i].closed, s), "F-ZOMBIE", w.b[i].stream == nil, "C19.stream-surfaces-exactly-once")
				if w.b[i].stream != nil {
					w.extra[w.nextra] = s
					w.nextra++
				} else {
					w.b[i].stream = s
				}
			}
		}
	}
}

// deliverOneAB: only the oldest control event is handled (the rest is still "on the wire")
func (w *smWorld) deliverOneAB() {
	ev := smWireAB[0]
	smWireAB = smWireAB[1:]
	w.eventToB(ev)
	w.acceptAll()
}

func (w *smWorld) deliverBA() {
	for i := range smWireBA {
		ev := smWireBA[i]
		vfAssert(len(ev) <= len(w.rdA), "SM.event-fits-read-buffer")
		copy(w.rdA[:], ev)
		n, err := w.A.handleEvents(w.rdA[:len(ev)])
		vfAssert(err == nil && n == len(ev), "SM.events-consumed-by-A")
	}
	smWireBA = nil
	for i := 0; i < w.nstr; i++ {
		w.a[i].deliv = w.a[i].sent
	}
}

// write+flush k bytes from end `from` of stream i to its peer
func (w *smWorld) send(i int, fromA bool, k int) {
	var src, dst *smEnd
	if fromA {
		src, dst = &w.a[i], &w.b[i]
	} else {
		src, dst = &w.b[i], &w.a[i]
	}
	if src.stream == nil {
		vfPrune()
	}
	data := vfBytes(k)
	n, err := src.stream.BufferWriter().WriteBytes(data)
	vfAssert(err == nil && n == k, "SM.write")
	ferr := src.stream.Flush(false)
	st := src.stream.state
	if src.closed || st != uint32(streamOpened) {
		vfAssert(ferr == ErrStreamClosed, "C10.flush-after-close-fails")
		vfAssert(src.stream.BufferWriter().Len() == 0, "C10.failed-flush-drops-the-data")
		return
	}
	if ferr == ErrQueueFull {
		// the peer does not consume: Flush gives up after its retries and drops the message
		vfAssert(src.stream.BufferWriter().Len() == 0, "C11.flush-returns-when-queue-stays-full")
		return
	}
	vfAssert(ferr == nil, "SM.flush")
	for j := 0; j < k; j++ {
		dst.model[dst.sent+j] = data[j]
	}
	dst.sent += k
}

// read k bytes at end (A or B) of stream i; k <= what was delivered and not yet read
func (w *smWorld) recv(i int, atA bool, k int) {
	var e *smEnd
	if atA {
		e = &w.a[i]
	} else {
		e = &w.b[i]
	}
	if e.stream == nil {
		vfPrune()
	}
	// what has been delivered to this end so far (the read itself would move pending data first)
	avail := 0
	if !e.closed {
		e.stream.pendingData.moveTo(e.stream.recvBuf)
		avail = e.stream.recvBuf.Len()
	}
	if k > avail && !e.closed && e.stream.state == uint32(streamOpened) {
		vfPrune() // the read would block: not part of the sequential space
	}
	b, err := e.stream.BufferReader().ReadBytes(k)
	if e.closed {
		vfAssert(err == ErrStreamClosed || err == ErrEndOfStream, "C10.read-after-local-close-fails")
		return
	}
	vfAssert(avail <= e.sent-e.read, "C07.never-more-than-was-flushed")
	if k <= avail {
		vfAssert(err == nil && len(b) == k, "C07.read-gets-what-was-flushed")
		for j := 0; j < k; j++ {
			vfAssert(b[j] == e.model[e.read+j], "C07.only-own-bytes-in-order")
		}
		e.read += k
		return
	}
	// more than there is: only legal outcome without blocking is end-of-stream after peer close
	if e.stream.state == uint32(streamOpened) {
		vfPrune() // would block: not part of the sequential space
	}
	vfAssert(err == ErrEndOfStream || err == ErrStreamClosed, "C10.eof-after-peer-close")
	if avail == 0 {
		e.sawEOF = true
		// the reader is told the stream ended: everything the peer flushed successfully before
		// closing must have been offered already
		peer := &w.a[i]
		if atA {
			peer = &w.b[i]
		}
		smAssert(peer.overtaken, "F-CLOSEOVERTAKE", e.read == e.sent, "C07.end-of-stream-only-after-every-flushed-byte-was-offered")
	}
}

func (w *smWorld) closeEnd(i int, atA bool) {
	var e *smEnd
	if atA {
		e = &w.a[i]
	} else {
		e = &w.b[i]
	}
	if e.stream == nil {
		vfPrune()
	}
	if atA && e.stream.inFallbackState && len(smWireAB) > 0 {
		e.overtaken = true // F-CLOSEOVERTAKE: the close travels through the queue, the data through the socket
	}
	err := e.stream.Close()
	vfAssert(err == nil, "C10.close-returns-nil")
	e.closed = true
	vfAssert(e.stream.state == uint32(streamClosed), "C10.closed-after-local-close")
	sess := w.B
	if atA {
		sess = w.A
	}
	vfAssert(sess.streams[e.stream.id] == nil, "C10.closed-stream-not-active")
}

// smAssert: a violation that falls under a recorded known finding is reported under the
// finding's prefix (the predicate `known` identifies the specific history), any other one under
// the plain id.
func smAssert(known bool, tag string, c bool, id string) {
	if known {
		vfAssert(c, tag+"/"+id)
	} else {
		vfAssert(c, id)
	}
}

// state only moves forward: opened(0) -> halfClosed(2) -> closed(1)
func smRank(st uint32) int {
	switch st {
	case uint32(streamOpened):
		return 0
	case uint32(streamHalfClosed):
		return 1
	}
	return 2
}

func (w *smWorld) monotone() {
	for i := 0; i < w.nstr; i++ {
		for side := 0; side < 2; side++ {
			e := &w.a[i]
			if side == 1 {
				e = &w.b[i]
			}
			if e.stream == nil {
				continue
			}
			st := e.stream.state
			vfAssert(smRank(st) >= smRank(e.lastSt), "C10.state-only-moves-forward")
			e.lastSt = st
			if e.closed {
				sess := w.A
				if side == 1 {
					sess = w.B
				}
				cur := sess.streams[e.stream.id]
				smAssert(smZombie(true, cur), "F-ZOMBIE", cur == nil, "C10.closed-stream-stays-inactive")
			}
		}
	}
}

func (w *smWorld) allBack() bool {
	for i := range w.bmA.lists {
		l := w.bmA.lists[i]
		h := w.hold
		if h > int(*l.cap)-1 {
			h = int(*l.cap) - 1
		}
		if int(*l.size) != int(*l.cap)-h || int(*l.size) != computeFreeSliceNum(l) {
			return false
		}
	}
	return true
}

// H_SM_history: one or two streams, a history of L steps (shape-coded), then both ends close
// everything, all events are delivered, and every buffer must be back.
func H_SM_history() {
	w := smSetup()
	ns := vfShape("streams", 1, 2)
	for i := 0; i < ns; i++ {
		w.open()
	}
	L := vfShape("steps", 1, 6)
	for step := 0; step < L; step++ {
		op := vfShape("op", 0, 9)
		i := 0
		if ns == 2 {
			i = vfShape("which", 0, 1)
		}
		switch op {
		case 9: // the server's event loop handles exactly the next control event
			if len(smWireAB) == 0 {
				vfPrune()
			}
			w.deliverOneAB()
		case 0:
			// 3: one slice; 9: two slices; 25: more than shared memory offers -> socket fallback
			w.send(i, true, []int{3, 9, 25}[vfShape("size", 0, 2)])
		case 1:
			w.deliverAB()
		case 2:
			w.recv(i, false, []int{1, 2, 3, 9}[vfShape("rsize", 0, 3)])
		case 3:
			if w.b[i].stream == nil {
				vfPrune()
			}
			if vfShape("reuse", 0, 1) == 1 {
				// long-stream mode: release what was read and keep the last slice for writing;
				// unread bytes must survive
				w.b[i].stream.ReleaseReadAndReuse()
			} else {
				w.b[i].stream.BufferReader().ReleasePreviousRead()
			}
		case 4:
			w.closeEnd(i, true)
		case 5:
			w.closeEnd(i, false)
		case 6:
			w.deliverBA()
		case 7:
			w.send(i, false, []int{3, 9}[vfShape("bsize", 0, 1)])
		default:
			w.recv(i, true, 3)
		}
		w.monotone()
	}
	w.windDown()
	vfCover("SM.history.end")
}

// windDown: deliver what is in flight, both ends close every stream, deliver the closes; then
// nothing may be left active and every buffer must be back
func (w *smWorld) windDown() {
	w.deliverAB()
	w.deliverBA()
	for i := 0; i < w.nstr; i++ {
		if w.a[i].closed && w.b[i].stream != nil {
			// the peer observes the end of the stream after draining what was flushed
			st := w.b[i].stream.state
			smAssert(w.a[i].overtaken, "F-CLOSEOVERTAKE", st != uint32(streamOpened) || w.b[i].closed, "C10.close-propagates-to-peer")
		}
		if w.b[i].closed {
			st := w.a[i].stream.state
			vfAssert(st != uint32(streamOpened) || w.a[i].closed, "C10.close-propagates-to-peer")
		}
	}
	for i := 0; i < w.nstr; i++ {
		if !w.a[i].closed {
			w.a[i].stream.Close()
		}
		if w.b[i].stream != nil && !w.b[i].closed {
			w.b[i].stream.Close()
		}
	}
	w.deliverAB()
	for i := 0; i < w.nextra; i++ {
		w.extra[i].Close()
	}
	w.deliverBA()
	w.monotone()
	vfAssert(len(w.A.streams) == 0, "C10.no-active-stream-left-on-A")
	vfAssert(len(w.B.streams) == 0, "C10.no-active-stream-left-on-B")
	vfAssert(w.allBack(), "C09.all-shared-memory-back-after-all-streams-closed")
}

// ---------------------------------------------------------------------------------------------
// C09 / C10 / C11 (Flush retry window, sync-point hook): the client's send queue is full, a further
// Flush enters its retry loop and is stopped in front of its k-th synchronisation operation while
// (0) the server's event loop consumes the queue, (1) the server closes the stream and the close
// reaches the client, or (2) the client's session dies. Flush must return with one of its documented results, what it could not send
// is released, and after the wind-down every buffer is back.
func H_SM_flushwindow() {
	vfInfeasibleOK()
	w := smSetup()
	w.open()
	w.send(0, true, 3)
	w.deliverAB()
	vfAssert(w.b[0].stream != nil, "SM.window.setup")
	w.send(0, true, 3)
	w.send(0, true, 3) // queue capacity 2, the server does not consume: full
	s := w.a[0].stream
	k := []int{3, 9}[vfShape("size", 0, 1)]
	data := vfBytes(k)
	n, err := s.BufferWriter().WriteBytes(data)
	vfAssert(err == nil && n == k, "SM.write")
	cut := vfShape("cut", 0, 40)
	adv := vfShape("adversary", 0, 2)
	dA := &c13Dispatcher{}
	w.A.dispatcher = dA
	fired := false
	vfSyncHook(cut, func() {
		fired = true
		switch adv {
		case 0:
			w.deliverAB()
		case 1:
			w.closeEnd(0, false)
			w.deliverBA()
		default:
			// (2) the client's session dies (peer death / local Close) and the event loop runs
			// its deferred teardown
			w.A.Close()
			for i := 0; i < 2; i++ {
				if i < len(dA.posted) {
					dA.posted[i]()
				}
			}
		}
	})
	ferr := s.Flush(false)
	vfStallHookOff()
	if !fired {
		vfPrune() // Flush has fewer synchronisation operations than the cut
	}
	if adv == 2 {
		vfAssert(ferr != nil, "C14.pending-flush-fails-on-session-death")
		vfAssert(s.BufferWriter().Len() == 0, "C14.failed-flush-leaves-nothing-buffered")
		_, rerr := s.BufferReader().ReadBytes(1)
		vfAssert(rerr != nil, "C14.pending-and-later-reads-fail")
		vfCover("SM.flushwindow.end")
		return
	}
	vfAssert(ferr == nil || ferr == ErrQueueFull || ferr == ErrStreamClosed, "C11.flush-returns-a-documented-result")
	vfAssert(s.BufferWriter().Len() == 0, "C11.flush-leaves-nothing-buffered")
	if ferr == nil {
		for j := 0; j < k; j++ {
			w.b[0].model[w.b[0].sent+j] = data[j]
		}
		w.b[0].sent += k
	}
	if adv == 0 {
		vfAssert(ferr != ErrStreamClosed, "C10.open-stream-flush-not-closed-error")
	}
	// the server reads what reached it (unless it closed), in order
	w.deliverAB()
	if !w.b[0].closed {
		bs := w.b[0].stream
		bs.pendingData.moveTo(bs.recvBuf)
		vfAssert(bs.recvBuf.Len() == w.b[0].sent, "C07.everything-flushed-is-readable")
		w.recv(0, false, w.b[0].sent)
	}
	w.windDown()
	vfCover("SM.flushwindow.end")
}

// ---------------------------------------------------------------------------------------------
// C15(b): the stream pool over the session model.

func H_C15_pool() {
	w := smSetup()
	pool := newStreamPool(uint32(vfShape("poolcap", 1, 2)))
	pool.session.Store(w.A)
	sm := &SessionManager{pools: []*streamPool{pool}, config: &SessionManagerConfig{Config: &Config{}}}
	var held [2]*Stream // streams currently held by the two callers
	var everGot [6]*Stream
	ngot := 0
	// a fixed prefix brings the model into the interesting states cheaply: 0 none; 1 caller 0 holds
	// a stream with a delivered request; 2 ... and has put it back (an idle pooled stream known to
	// the peer); then L free steps
	prefix := vfShape("prefix", 0, 2)
	forced := [4]int{0, 1, 2, 6}
	nforced := 0
	if prefix == 1 {
		nforced = 3
	} else if prefix == 2 {
		nforced = 4
	}
	L := vfShape("steps", 1, 7)
	for step := 0; step < nforced+L; step++ {
		var op, k int
		if step < nforced {
			op, k = forced[step], 0
		} else {
			op = vfShape("op", 0, 7)
			k = vfShape("caller", 0, 1)
		}
		switch op {
		case 0: // GetStream
			if held[k] != nil {
				vfPrune()
			}
			s, err := sm.GetStream()
			vfAssert(err == nil && s != nil, "C15.get")
			vfAssert(s.IsOpen(), "C15.handed-out-stream-is-open")
			vfAssert(!s.Session().IsClosed(), "C15.handed-out-stream-on-live-session")
			vfAssert(s.recvBuf.Len() == 0 && len(s.pendingData.unread) == 0, "C15.handed-out-stream-carries-no-old-bytes")
			vfAssert(!s.inFallbackState && s.getCallbacks() == nil, "C15.handed-out-stream-is-clean")
			vfAssert(held[1-k] != s, "C15.not-handed-to-two-callers")
			held[k] = s
			everGot[ngot] = s
			ngot++
		case 1: // request
			if held[k] == nil {
				vfPrune()
			}
			data := vfBytes(3)
			held[k].BufferWriter().WriteBytes(data)
			wasOpen := held[k].IsOpen()
			if ferr := held[k].Flush(false); ferr != nil {
				vfAssert(ferr == ErrQueueFull || (ferr == ErrStreamClosed && !wasOpen), "C15.request-flush")
			}
		case 2:
			w.deliverAB()
		case 3: // the server answers on the stream of caller k
			if held[k] == nil {
				vfPrune()
			}
			bs := w.B.streams[held[k].id]
			if bs == nil || !bs.IsOpen() {
				vfPrune()
			}
			bs.BufferWriter().WriteBytes(vfBytes(3))
			// (the queue towards the client holds two elements: a third undelivered answer is refused)
			rerr := bs.Flush(false)
			vfAssert(rerr == nil || rerr == ErrQueueFull, "C15.response-flush")
		case 4:
			w.deliverBA()
		case 5: // the caller reads the response
			if held[k] == nil {
				vfPrune()
			}
			held[k].pendingData.moveTo(held[k].recvBuf)
			if held[k].recvBuf.Len() < 3 {
				vfPrune()
			}
			_, err := held[k].BufferReader().ReadBytes(3)
			vfAssert(err == nil, "C15.read-response")
		case 6: // PutBack
			if held[k] == nil {
				vfPrune()
			}
			sm.PutBack(held[k])
			held[k] = nil
		default: // the server closes its end of some stream it knows (possibly a pooled, idle one)
			closed := false
			for i := 0; i < ngot; i++ {
				if bs := w.B.streams[everGot[i].id]; bs != nil && !closed {
					bs.Close()
					closed = true
				}
			}
			if !closed {
				vfPrune()
			}
		}
		// the active-stream count is what callers hold plus what the pool keeps
		nheld := 0
		for i := 0; i < 2; i++ {
			if held[i] != nil && held[i].state != uint32(streamClosed) {
				nheld++
			}
		}
		pooled := int(pool.tail - pool.head)
		vfAssert(w.A.GetActiveStreamCount() == nheld+pooled, "C15.active-count-is-held-plus-pooled")
	}
	vfCover("C15.pool.end")
}

// ---------------------------------------------------------------------------------------------
// C19(a): the net.Conn adapter (streamWrapper) follows the io.Reader / io.Writer contracts and
// closes once.
func H_C19_conn() {
	w := smSetup()
	w.open()
	var wgA, wgB sync.WaitGroup
	wgA.Add(1) // the listener's own reference
	wgB.Add(1)
	ca := newStreamWrapper(w.a[0].stream, nil, nil, &wgA)
	nw := vfShape("writes", 1, 2)
	total := 0
	var model [32]byte
	for i := 0; i < nw; i++ {
		k := []int{0, 1, 4, 9, 13}[vfShape("wlen", 0, 4)]
		p := vfBytes(k)
		n, err := ca.Write(p)
		vfAssert(err == nil && n == k, "C19.Write-delivers-all-of-p")
		for j := 0; j < k; j++ {
			model[total+j] = p[j]
		}
		total += k
	}
	w.deliverAB()
	if total == 0 {
		vfAssert(w.b[0].stream == nil, "C19.nothing-sent-nothing-surfaces")
		vfCover("opt:C19.conn.empty")
		return
	}
	vfAssert(w.b[0].stream != nil, "C19.stream-surfaces-at-the-server")
	cb := newStreamWrapper(w.b[0].stream, nil, nil, &wgB)
	got := 0
	nr := vfShape("reads", 1, 3)
	for i := 0; i < nr; i++ {
		k := vfShape("rlen", 0, 14)
		if got == total && k > 0 {
			vfPrune() // would block
		}
		p := make([]byte, k)
		n, err := cb.Read(p)
		if k == 0 {
			vfAssert(n == 0 && err == nil, "C19.Read-of-empty-p")
			continue
		}
		vfAssert(err == nil && n >= 1 && n <= k, "C19.Read-returns-1..len(p)")
		for j := 0; j < 14; j++ {
			if j < n {
				vfAssert(p[j] == model[got+j], "C19.Read-bytes-in-order")
			}
		}
		got += n
		vfAssert(got <= total, "C19.Read-never-invents-bytes")
	}
	// Close works as on a socket: idempotent, releases the connection's reference once
	vfAssert(ca.Close() == nil && ca.Close() == nil, "C19.Close-idempotent")
	vfAssert(w.a[0].stream.state == uint32(streamClosed), "C19.Close-closes-the-stream")
	wgA.Done() // the listener lets go: the counter must be exactly zero now (never negative)
	wgA.Wait()
	vfAssert(cb.Close() == nil && cb.Close() == nil, "C19.Close-idempotent")
	wgB.Done()
	wgB.Wait()
	vfCover("C19.conn.end")
}

// ---------------------------------------------------------------------------------------------
// C20 / C10 (callback mode): the callback goroutine started by fillDataToReadBuffer runs when the
// harness lets it (right after the event loop finished the event, or after later arrivals), and
// arrivals and the peer's close can fall inside a running OnData.
// This decides the data path of callback mode for every message size and consumption pattern
// (every byte offered once, in order; nothing left unoffered at quiescence; nothing offered after
// close; close reports) - NOT the interleavings of arrivals with a running callback.

type c20CB struct {
	w    *smWorld
	st   *Stream
	mode [6]int // per invocation: 0 consume everything, 1 consume one byte, 2 consume everything and Close, 3 consume one byte and Close (the rest must never be offered),
	// 4 consume one byte, 5 consume everything - and while the callback is still running the peer flushes another
	// message which the event loop handles; 6 consume everything, and the peer's Close arrives while the callback runs
	calls        int
	seen         [64]byte
	nseen        int
	active       int
	overlap      bool
	local        int
	remote       int
	afterClose   bool
	closedInside bool
}

func (c *c20CB) OnData(r BufferReader) {
	c.active++
	if c.active > 1 {
		c.overlap = true
	}
	if c.closedInside {
		c.afterClose = true
	}
	m := 0
	if c.calls < 6 {
		m = c.mode[c.calls]
	}
	c.calls++
	n := r.Len()
	if m == 1 || m == 3 || m == 4 {
		n = 1
	}
	b, err := r.ReadBytes(n)
	if err == nil {
		for i := range b {
			if c.nseen < 64 {
				c.seen[c.nseen] = b[i]
				c.nseen++
			}
		}
	}
	r.ReleasePreviousRead()
	if (m == 4 || m == 5) && !c.w.a[0].closed {
		// the event loop is another goroutine: it may handle an arrival between any two steps of
		// the callback
		c.w.send(0, true, []int{1, 3, 9}[vfShape("during", 0, 2)])
		c.w.deliverAB()
	}
	if m == 6 && !c.w.a[0].closed {
		c.w.closeEnd(0, true)
		c.w.deliverAB()
	}
	if m == 2 || m == 3 {
		c.closedInside = true
		c.st.Close()
	}
	c.active--
}

// The callback goroutine is started through gopool.Go, which is replaced (in the model and in the
// native replay alike) by a recorder: the harness decides when the started goroutines run, each
// to completion. The event loop is idle then, so that what OnData does in modes 4-6 (the peer
// flushes or closes and the event loop handles it) is an interleaving the real system has.
var c20Pending []func()

func vfstub_c20_gopoolGo(f func()) { c20Pending = append(c20Pending, f) }

func c20RunCallbacks() {
	for len(c20Pending) > 0 {
		f := c20Pending[0]
		c20Pending = c20Pending[1:]
		f()
	}
}

func (c *c20CB) OnLocalClose()  { c.local++ }
func (c *c20CB) OnRemoteClose() { c.remote++ }

type c20Listen struct{ cb *c20CB }

func (l *c20Listen) OnNewStream(s *Stream) {
	if l.cb.st != nil {
		// the id surfaced again (F-ZOMBIE: data for a stream that was already closed): the
		// application treats it as a new stream with callbacks of its own
		vfAssert(false, "C19.stream-surfaces-exactly-once")
		s.SetCallbacks(&c20CB{st: s})
		return
	}
	l.cb.st = s
	s.SetCallbacks(l.cb)
}
func (l *c20Listen) OnShutdown(reason string) {}

func H_C20_inline() {
	w := smSetup()
	c20Pending = nil
	cb := &c20CB{w: w}
	w.B.config.listenCallback = &c20Listen{cb: cb}
	w.open()
	M := vfShape("messages", 1, 3)
	for j := 0; j < 6; j++ {
		cb.mode[j] = 0
	}
	ninv := vfShape("patterned", 0, 3)
	for j := 0; j < ninv; j++ {
		cb.mode[j] = vfShape("mode", 0, 6)
	}
	total := 0
	closeAt := vfShape("closeAfter", 0, M) // 0: never; k: A closes after its k-th message
	for m := 0; m < M; m++ {
		k := []int{1, 3, 9, 13}[vfShape("size", 0, 3)]
		before := w.b[0].sent
		w.send(0, true, k)
		total = w.b[0].sent
		_ = before
		if vfShape("deliverNow", 0, 1) == 1 || m == M-1 {
			w.deliverAB()
			if vfShape("lag", 0, 1) == 0 {
				// 1: the callback goroutine only gets to run after later arrivals
				c20RunCallbacks()
			}
		}
		if closeAt == m+1 {
			w.closeEnd(0, true)
			w.deliverAB()
			c20RunCallbacks()
		}
	}
	w.deliverAB()
	c20RunCallbacks()
	if cb.st != nil {
		cb.st.asyncGoroutineWg.Wait()
	}
	total = w.b[0].sent
	vfAssert(!cb.overlap, "C20.OnData-never-runs-twice-at-once")
	vfAssert(cb.nseen <= total, "C20.never-offered-twice")
	for i := 0; i < 64; i++ {
		if i < cb.nseen {
			vfAssert(cb.seen[i] == w.b[0].model[i], "C20.offered-in-order")
		}
	}
	vfAssert(!cb.afterClose, "C20.nothing-offered-after-close")
	if !cb.closedInside && cb.st != nil {
		// quiescent, stream not closed by the callback: everything flushed has been offered
		vfAssert(cb.nseen == total, "C20.every-byte-offered-without-further-traffic")
		vfAssert(cb.st.recvBuf.Len() == 0 && len(cb.st.pendingData.unread) == 0, "C20.nothing-left-unoffered")
	}
	if w.a[0].closed && cb.st != nil && !cb.closedInside {
		vfAssert(cb.remote == 1 && cb.local == 0, "C10.remote-close-reported-exactly-once")
	}
	if cb.closedInside {
		// Close called from inside the data callback: final, reported once, and the peer learns it
		vfAssert(cb.st.state == uint32(streamClosed), "C10.close-from-inside-OnData-is-final")
		w.deliverBA()
		vfAssert(cb.local+cb.remote == 1, "C10.close-from-inside-OnData-reported-exactly-once")
		if closeAt == 0 {
			vfAssert(w.a[0].stream.state != uint32(streamOpened), "C10.close-from-inside-OnData-propagates-to-peer")
		}
	}
	vfCover("C20.inline.end")
}

// ---------------------------------------------------------------------------------------------
// C20 (hand-off window, sync-point hook): the callback goroutine is stopped in front of its k-th
// synchronisation operation (atomic, lock acquisition, channel operation) and, while it is stopped,
// the peer flushes another message that the event loop handles, or closes. Covers every placement
// of ONE such burst relative to the goroutine's flag hand-off (clear, re-check pending, re-take);
// stopping points inside a critical section the burst needs are infeasible and pruned.
func H_C20_window() {
	vfInfeasibleOK()
	w := smSetup()
	c20Pending = nil
	cb := &c20CB{w: w}
	w.B.config.listenCallback = &c20Listen{cb: cb}
	w.open()
	for j := 0; j < 6; j++ {
		cb.mode[j] = 0
	}
	cb.mode[0] = vfShape("first", 0, 1)
	w.send(0, true, []int{1, 3, 9}[vfShape("size", 0, 2)])
	w.deliverAB()
	cut := vfShape("cut", 0, 40)
	adv := vfShape("adversary", 0, 1)
	fired := false
	vfSyncHook(cut, func() {
		fired = true
		if adv == 0 {
			w.send(0, true, []int{1, 9}[vfShape("during", 0, 1)])
		} else {
			w.closeEnd(0, true)
		}
		w.deliverAB()
	})
	c20RunCallbacks()
	vfStallHookOff()
	if !fired {
		vfPrune() // the goroutine has fewer synchronisation operations than the cut
	}
	c20RunCallbacks() // a goroutine started by the arrival inside the window
	if cb.st != nil {
		cb.st.asyncGoroutineWg.Wait()
	}
	total := w.b[0].sent
	vfAssert(cb.st != nil, "C20.window.setup")
	vfAssert(len(c20Pending) == 0, "C20.no-callback-goroutine-left-unstarted")
	vfAssert(cb.nseen <= total, "C20.never-offered-twice")
	for i := 0; i < 64; i++ {
		if i < cb.nseen {
			vfAssert(cb.seen[i] == w.b[0].model[i], "C20.offered-in-order")
		}
	}
	vfAssert(cb.nseen == total, "C20.every-byte-offered-without-further-traffic")
	vfAssert(cb.st.recvBuf.Len() == 0 && len(cb.st.pendingData.unread) == 0, "C20.nothing-left-unoffered")
	vfAssert(atomic.LoadUint32(&cb.st.callbackInProcess) == 0, "C20.flag-clear-at-quiescence")
	if adv == 1 {
		vfAssert(cb.remote == 1 && cb.local == 0, "C10.remote-close-reported-exactly-once")
	}
	vfCover("C20.window.end")
}

// ---------------------------------------------------------------------------------------------
// C11 (sequential fragment): a blocking call whose releasing event has already happened returns
// at once with the right result; no call of the explored histories can block forever (every
// sequential harness carries "noblock" obligations on lock, channel, select and WaitGroup waits).
// The interleaving of the releasing event with the caller entering its wait, and elapsed time, are
// NOT covered.
func H_C11_release() {
	w := smSetup()
	w.open()
	w.send(0, true, 3)
	w.deliverAB()
	b := w.b[0].stream
	vfAssert(b != nil, "C11.setup")
	want := vfShape("want", 1, 5)
	release := vfShape("release", 0, 5)
	switch release {
	case 0: // enough data arrives
		if want > 3 {
			w.send(0, true, 3)
			w.deliverAB()
		}
		got, err := b.BufferReader().ReadBytes(want)
		vfAssert(err == nil && len(got) == want, "C11.read-returns-when-enough-data-arrived")
	case 1: // the peer closes: what was flushed is drained, then end of stream
		w.closeEnd(0, true)
		w.deliverAB()
		got, err := b.BufferReader().ReadBytes(want)
		if want <= 3 {
			vfAssert(err == nil && len(got) == want, "C11.read-drains-before-eof")
		} else {
			vfAssert(err == ErrEndOfStream, "C11.read-returns-eof-after-peer-close")
		}
	case 2: // local close
		b.Close()
		_, err := b.BufferReader().ReadBytes(want)
		vfAssert(err == ErrStreamClosed || err == ErrEndOfStream, "C11.read-fails-after-local-close")
	case 3: // the session dies
		w.B.dispatcher = &c13Dispatcher{}
		w.B.Close()
		_, err := b.BufferReader().ReadBytes(5)
		vfAssert(err == ErrStreamClosed || err == ErrEndOfStream, "C11.read-returns-when-session-dies")
		_, aerr := w.B.AcceptStream()
		vfAssert(aerr != nil, "C11.accept-returns-on-shutdown")
		vfAssert(w.B.Close() == nil, "C14.session-close-idempotent")
	case 4: // the deadline passes: time-out error (the timer model fires only if nothing else is ready)
		b.SetReadDeadline(time.Now())
		_, err := b.BufferReader().ReadBytes(5)
		vfAssert(err == ErrTimeout, "C11.read-times-out-at-deadline")
		// with enough data the deadline is irrelevant
		got, err2 := b.BufferReader().ReadBytes(2)
		vfAssert(err2 == nil && len(got) == 2, "C11.no-timeout-when-data-is-there")
	default: // Flush against a queue that stays full returns
		a := w.a[0].stream
		var last error
		for i := 0; i < 4; i++ {
			a.BufferWriter().WriteBytes(vfBytes(2))
			last = a.Flush(false)
		}
		vfAssert(last == nil || last == ErrQueueFull, "C11.flush-returns-although-queue-full")
	}
	vfCover("C11.release.end")
}

// ---------------------------------------------------------------------------------------------
// C05 over the session model (wake-up window, sync-point hook): the first message's polling event
// is still on the wire; the second Flush is stopped in front of its k-th synchronisation operation
// (between its queue put and its wake-up among others) while the server's event loop handles the
// late event and consumes what is in the queue; a third message follows. At quiescence an element
// in the queue without a polling event under way would be stranded.
func H_SM_wakewindow() {
	vfInfeasibleOK()
	w := smSetup()
	w.open()
	w.send(0, true, 3)
	cut := vfShape("cut", 0, 24)
	fired := false
	vfSyncHook(cut, func() {
		fired = true
		w.deliverAB()
	})
	w.send(0, true, 3)
	vfStallHookOff()
	if !fired {
		vfPrune()
	}
	if vfShape("between", 0, 1) == 1 {
		w.deliverAB()
	}
	w.send(0, true, 3)
	vfAssert(w.B.queueManager.recvQueue.isEmpty() || len(smWireAB) > 0, "C05.no-stranded-element")
	w.deliverAB()
	vfAssert(w.B.queueManager.recvQueue.isEmpty(), "C05.consumer-drains-the-queue")
	vfAssert(w.b[0].stream != nil, "C19.stream-surfaces")
	bs := w.b[0].stream
	bs.pendingData.moveTo(bs.recvBuf)
	vfAssert(bs.recvBuf.Len() == w.b[0].sent, "C07.everything-flushed-is-readable")
	w.recv(0, false, w.b[0].sent)
	w.windDown()
	vfCover("SM.wakewindow.end")
}

// ---------------------------------------------------------------------------------------------
// C08 over the session model (late data under an unreleased read): a zero-copy read result is held
// while the stream's sender closes the stream and data it flushed before the close arrives after
// the close notification (socket-fallback data overtaken by the close while another stream keeps
// the consumer working - the F-CLOSEOVERTAKE ordering), and other traffic allocates meanwhile.
func (w *smWorld) sliceIsFree(dataOff int) bool {
	for i := range w.bmB.lists {
		l := w.bmB.lists[i]
		off := *l.head
		for k := 0; k < 8; k++ {
			if int(l.bufferRegionOffsetInShm+off)+bufferHeaderSize == dataOff {
				return true
			}
			if off+bufferHeaderSize > uint32(len(l.bufferRegion)) {
				break
			}
			h := bufferHeader(l.bufferRegion[off : off+bufferHeaderSize])
			if !h.hasNext() {
				break
			}
			off = h.nextBufferOffset()
		}
	}
	return false
}

func H_C08_late() {
	w := smSetup()
	w.open()
	w.open()
	w.send(0, true, []int{3, 9}[vfShape("first", 0, 1)])
	w.deliverAB()
	bs := w.b[0].stream
	vfAssert(bs != nil, "C08.late.setup")
	rd := vfShape("read", 1, 3)
	r, err := bs.BufferReader().ReadBytes(rd) // zero-copy, not released
	vfAssert(err == nil && len(r) == rd, "C08.read-len")
	w.b[0].read += rd
	dataOff := vfOffsetIn(r, w.mem) // -1: the message came through the socket (shared memory exhausted)
	w.send(1, true, 3)              // the other stream: its polling event is on the wire
	w.send(0, true, 25)             // more than shared memory offers: socket fallback, behind it on the wire
	w.closeEnd(0, true)             // the close travels through the queue
	if vfShape("order", 0, 1) == 0 {
		w.deliverAB()
	} else {
		w.deliverOneAB()
		w.deliverAB()
	}
	for j := 0; j < 3; j++ {
		if j < rd {
			vfAssert(r[j] == w.b[0].model[j], "C08.result-intact-until-release")
		}
	}
	if dataOff >= 0 {
		vfAssert(!w.sliceIsFree(dataOff), "C08.pinned-buffer-not-recycled-before-release")
	}
	// other traffic allocates and frees meanwhile
	w.send(1, true, []int{3, 9}[vfShape("other", 0, 1)])
	w.deliverAB()
	for j := 0; j < 3; j++ {
		if j < rd {
			vfAssert(r[j] == w.b[0].model[j], "C08.result-intact-until-release")
		}
	}
	bs.BufferReader().ReleasePreviousRead()
	w.windDown()
	vfCover("C08.late.end")
}

// ---------------------------------------------------------------------------------------------
// C11 (release window, sync-point hook): a read that needs more than is there is stopped in front
// of its k-th synchronisation operation - in particular between finding too little data and
// entering its wait - while the releasing event happens: enough data arrives, the peer closes,
// another goroutine closes the stream locally, the session is closed. The call must return with
// the result that belongs to the event; a call that would wait for ever is a noblock violation.
func H_C11_window() {
	vfInfeasibleOK()
	w := smSetup()
	w.open()
	w.send(0, true, 3)
	w.deliverAB()
	bs := w.b[0].stream
	vfAssert(bs != nil, "C11.window.setup")
	want := vfShape("want", 4, 6)
	adv := vfShape("adversary", 0, 3)
	cut := vfShape("cut", 0, 16)
	dB := &c13Dispatcher{}
	w.B.dispatcher = dB
	fired := false
	vfSyncHook(cut, func() {
		fired = true
		switch adv {
		case 0:
			w.send(0, true, 3)
			w.deliverAB()
		case 1:
			w.closeEnd(0, true)
			w.deliverAB()
		case 2:
			w.closeEnd(0, false)
		default:
			w.B.Close()
			for i := 0; i < 2; i++ {
				if i < len(dB.posted) {
					dB.posted[i]()
				}
			}
		}
	})
	b, err := bs.BufferReader().ReadBytes(want)
	vfStallHookOff()
	if !fired {
		vfPrune()
	}
	switch adv {
	case 0:
		vfAssert(err == nil && len(b) == want, "C11.read-returns-when-enough-data-arrived")
		for j := 0; j < 6; j++ {
			if j < want && err == nil {
				vfAssert(b[j] == w.b[0].model[j], "C07.only-own-bytes-in-order")
			}
		}
	case 1:
		vfAssert(err == ErrEndOfStream, "C11.read-reports-end-after-peer-close")
	case 2:
		vfAssert(err == ErrStreamClosed || err == ErrEndOfStream, "C11.read-fails-after-local-close")
	default:
		vfAssert(err != nil, "C11.read-fails-after-session-close")
	}
	vfCover("C11.window.end")
}

// C10 (simultaneous closes, sync-point hook): the client's Close is stopped in front of its k-th
// synchronisation operation while the server closes its end (the notifications travel in
// either order) or sends data that arrives meanwhile. Both ends end up closed, neither stream stays active, every buffer is back.
func H_SM_closewindow() {
	vfInfeasibleOK()
	w := smSetup()
	w.open()
	w.send(0, true, []int{3, 9}[vfShape("size", 0, 1)])
	w.deliverAB()
	vfAssert(w.b[0].stream != nil, "SM.closewindow.setup")
	if vfShape("reply", 0, 1) == 1 {
		w.send(0, false, 3) // an answer is under way (possibly never read)
	}
	cut := vfShape("cut", 0, 24)
	adv := vfShape("adversary", 0, 4)
	fired := false
	vfSyncHook(cut, func() {
		fired = true
		if adv >= 3 {
			// data of the server reaches the client while its Close is under way: it has to be
			// released, not kept
			w.send(0, false, []int{3, 9}[adv-3])
			w.deliverBA()
			return
		}
		w.closeEnd(0, false)
		switch adv {
		case 1:
			w.deliverBA() // the server's close reaches the client while its own Close is under way
		case 2:
			w.deliverAB()
			w.deliverBA()
		}
	})
	w.closeEnd(0, true)
	vfStallHookOff()
	if !fired {
		vfPrune()
	}
	w.monotone()
	w.windDown()
	vfCover("SM.closewindow.end")
}

// ---------------------------------------------------------------------------------------------
// C15 (put-back window, sync-point hook): PutBack of a stream whose answer is still under way is
// stopped in front of its k-th synchronisation operation while the answer arrives, or the server
// closes the stream. Whatever GetStream hands out next is open, clean and carries no old bytes,
// and the active-stream count equals what callers hold plus what is pooled.
func H_C15_window() {
	vfInfeasibleOK()
	w := smSetup()
	pool := newStreamPool(1)
	pool.session.Store(w.A)
	sm := &SessionManager{pools: []*streamPool{pool}, config: &SessionManagerConfig{Config: &Config{}}}
	s, err := sm.GetStream()
	vfAssert(err == nil && s != nil, "C15.get")
	s.BufferWriter().WriteBytes(vfBytes(3))
	vfAssert(s.Flush(false) == nil, "C15.request-flush")
	w.deliverAB()
	bs := w.B.streams[s.id]
	vfAssert(bs != nil, "C15.window.setup")
	bs.BufferWriter().WriteBytes(vfBytes(3))
	vfAssert(bs.Flush(false) == nil, "C15.response-flush")
	cut := vfShape("cut", 0, 24)
	adv := vfShape("adversary", 0, 1)
	fired := false
	vfSyncHook(cut, func() {
		fired = true
		if adv == 1 {
			bs.Close()
		}
		w.deliverBA()
	})
	sm.PutBack(s) // the caller gave up waiting for the answer
	vfStallHookOff()
	if !fired {
		vfPrune()
	}
	w.deliverBA()
	s2, err2 := sm.GetStream()
	vfAssert(err2 == nil && s2 != nil, "C15.get")
	vfAssert(s2.IsOpen(), "C15.handed-out-stream-is-open")
	s2.pendingData.moveTo(s2.recvBuf)
	vfAssert(s2.recvBuf.Len() == 0, "C15.handed-out-stream-carries-no-old-bytes")
	vfAssert(!s2.inFallbackState && s2.getCallbacks() == nil, "C15.handed-out-stream-is-clean")
	pooled := int(pool.tail - pool.head)
	vfAssert(len(w.A.streams) == 1+pooled, "C15.active-count-is-held-plus-pooled")
	vfCover("C15.window.end")
}

// the session model's queue memory is plain harness memory: nothing to unmap or unlink
func vfstub_sm_qmUnmap(q *queueManager) {}
