//go:build verif

package shmipc

// C13 (handshake phase): the real newSession of one end - initProtocol with its goroutine,
// getProtocolInitializer, the protocol 2/3 initialisers, blockReadEventHeader / waitEventHeader,
// handleExchangeVersion, handleShareMemoryByFilePath / ByMemFd up to extractShmMetadata - reading an
// arbitrary byte string from its peer (length = shape, every byte symbolic) followed by end of
// file, over the socket model of C12. Nothing may panic; the call returns, with an error and
// without a session unless the bytes happened to be a complete well-formed exchange.
func H_C13_handshake() {
	c14OS = osModel{}
	defaultDispatcher = &c12Dispatcher{}
	for w := 0; w < 2; w++ {
		c12.in[w] = &c12Pipe{ch: make(chan []byte, 64), fds: make(chan [2]int, 2)}
		c12.file[w] = c12NewFile(w)
		c12.fdOf[w] = int(c12.file[w].Fd())
		c12.calls[w] = 0
	}
	c12.never = make(chan struct{})
	c12.inflight = 0
	c12.twoProcs = false
	c12.fileType = false
	c12fs.n, c12fs.nh = 0, 0
	for i := 0; i < 3; i++ {
		c12.procs[i] = &globalBufferManager{bms: make(map[string]*bufferManager, 8)}
	}
	bufferManagers = c12.procs[0]
	c12.osCalls, c12.osFailAt = 0, 0
	c12.chunk = 0
	c12.stallWho, c12.stallAt = -1, 0
	c12.die = false
	c12.dead[0], c12.dead[1] = false, false

	victim := vfShape("victim", 0, 1) // 0: a memfd client reads the bytes as the server's answers; 1: a server reads them
	n := vfShape("len", 0, 28)
	cut := vfShape("cut", 0, 1) // the bytes arrive whole, or the first 5 bytes come separately
	garbage := vfBytes(n)
	// prefix 0: every byte is arbitrary. prefix 1 (server only): a well-formed protocol 2
	// share-memory header announcing exactly the n arbitrary bytes that follow as its body.
	// prefix 2 (server only): a well-formed version announcement, then a well-formed memfd
	// share-memory header announcing the n arbitrary bytes as its body. (Headers made of arbitrary
	// bytes reach these parsers too, but the queries grow too fast with the length.)
	switch vfShape("prefix", 0, 2) {
	case 0:
		if n > 8 {
			vfPrune() // beyond one header the queries do not finish (symbolic body length)
		}
	case 1:
		if victim != 1 {
			vfPrune()
		}
		h := make([]byte, headerSize)
		header(h).encode(uint32(headerSize+n), 2, typeShareMemoryByFilePath)
		c12.in[victim].ch <- h
	case 2:
		if victim != 1 {
			vfPrune()
		}
		h := make([]byte, headerSize)
		header(h).encode(headerSize, 3, typeExchangeProtoVersion)
		c12.in[victim].ch <- h
		h2 := make([]byte, headerSize)
		header(h2).encode(uint32(headerSize+n), 3, typeShareMemoryByMemfd)
		c12.in[victim].ch <- h2
	}
	if cut == 1 && n > 5 {
		c12.in[victim].ch <- garbage[:5]
		c12.in[victim].ch <- garbage[5:]
	} else {
		if cut == 1 {
			vfPrune()
		}
		c12.in[victim].ch <- garbage
	}
	close(c12.in[victim].ch)
	close(c12.in[victim].fds)
	var sess *Session
	var err error
	done := false
	go func() {
		sess, err = newSession(c12Config(), c12NetConn{victim}, victim == 0)
		done = true
	}()
	vfRunGoroutines()
	vfAssert(done, "C13.handshake-on-arbitrary-bytes-returns")
	if done && err != nil {
		vfAssert(sess == nil, "C13.failed-handshake-yields-no-session")
	}
	vfCover("C13.handshake.end")
}
