//go:build verif

package shmipc

import (
	"unsafe"

	syscall "golang.org/x/sys/unix"
)

// C18: the event connection moves bytes exactly once and in order under any kernel IO.
// Real code: connEventHandler.write / writev / doWritev / onReadReady / maybeExpandReadBuffer /
// commitRead / onWriteReady. The kernel is a model: SYS_WRITE / SYS_WRITEV accept any prefix
// (1..remaining bytes), or answer EAGAIN (a write-ready notification follows), or fail; SYS_READ
// delivers chunks of the inbound stream of any size, then EAGAIN.

type c18Kernel struct {
	conn    *connEventHandler
	out     [32]byte // bytes accepted by the socket, in order
	nout    int
	plan    [12]int // per syscall: -1 error, 0 EAGAIN, k>0 bytes
	nplan   int
	pos     int
	in      [32]byte // inbound stream
	nin     int
	inpos   int
	sysErrs int
}

var c18K *c18Kernel

func c18ByteAt(base *byte, i int) byte {
	return *(*byte)(unsafe.Pointer(uintptr(unsafe.Pointer(base)) + uintptr(i)))
}

func c18SetByteAt(base *byte, i int, v byte) {
	*(*byte)(unsafe.Pointer(uintptr(unsafe.Pointer(base)) + uintptr(i))) = v
}

func (k *c18Kernel) next() int {
	if k.pos >= k.nplan {
		vfPrune() // the plan is shorter than the run: not a case
	}
	v := k.plan[k.pos]
	k.pos++
	return v
}

func vfstub_Syscall(trap, a1, a2, a3 uintptr) (uintptr, uintptr, syscall.Errno) {
	k := c18K
	switch trap {
	case syscall.SYS_WRITE:
		n := int(a3)
		v := k.next()
		if v == 0 {
			asyncNotify(k.conn.onWriteReadyCh) // epoll reports write-readiness later
			return 0, 0, syscall.EAGAIN
		}
		if v < 0 {
			return 0, 0, syscall.EPIPE
		}
		if v > n {
			vfPrune()
		}
		base := (*byte)(unsafe.Pointer(a2))
		for i := 0; i < v; i++ {
			k.out[k.nout] = c18ByteAt(base, i)
			k.nout++
		}
		return uintptr(v), 0, 0
	case syscall.SYS_WRITEV:
		cnt := int(a3)
		v := k.next()
		if v == 0 {
			asyncNotify(k.conn.onWriteReadyCh)
			return 0, 0, syscall.EAGAIN
		}
		if v < 0 {
			return 0, 0, syscall.EPIPE
		}
		// locate the first iovec of the call inside the connection's array
		first := -1
		for i := 0; i < 4; i++ {
			if unsafe.Pointer(&k.conn.ioves[i]) == unsafe.Pointer(a2) {
				first = i
			}
		}
		vfAssert(first >= 0, "C18.writev-passes-its-iovec-array")
		total := 0
		for i := 0; i < cnt; i++ {
			total += int(k.conn.ioves[first+i].Len)
		}
		if v > total {
			vfPrune()
		}
		left := v
		for i := 0; i < cnt; i++ {
			iv := &k.conn.ioves[first+i]
			for j := 0; j < int(iv.Len); j++ {
				if left == 0 {
					break
				}
				k.out[k.nout] = c18ByteAt(iv.Base, j)
				k.nout++
				left--
			}
		}
		return uintptr(v), 0, 0
	}
	vfAssert(false, "C18.unexpected-syscall")
	return 0, 0, 0
}

func vfstub_RawSyscall(trap, a1, a2, a3 uintptr) (uintptr, uintptr, syscall.Errno) {
	k := c18K
	vfAssert(trap == syscall.SYS_READ, "C18.unexpected-rawsyscall")
	room := int(a3)
	v := k.next()
	if v == 0 || k.inpos == k.nin {
		return 0, 0, syscall.EAGAIN
	}
	if v < 0 {
		return 0, 0, syscall.ECONNRESET
	}
	vfAssert(room > 0, "C18.read-always-offers-room")
	if v > room || v > k.nin-k.inpos {
		vfPrune()
	}
	base := (*byte)(unsafe.Pointer(a2))
	for i := 0; i < v; i++ {
		c18SetByteAt(base, i, k.in[k.inpos])
		k.inpos++
	}
	return uintptr(v), 0, 0
}

func c18Setup(bufLen int) *c18Kernel {
	k := &c18Kernel{}
	k.conn = &connEventHandler{readBuffer: make([]byte, bufLen), onWriteReadyCh: make(chan struct{}, 1), fd: 3}
	c18K = k
	k.nplan = vfShape("syscalls", 1, 8)
	return k
}

// (a) writer: write(data) and writev(d0,d1,d2) under every partial-write / EAGAIN pattern
func H_C18_write() {
	k := c18Setup(4)
	n := vfShape("len", 1, 5)
	data := vfBytes(n)
	for i := 0; i < k.nplan; i++ {
		k.plan[i] = vfShape("ret", 0, n)
	}
	err := k.conn.write(data)
	vfAssert(err == nil, "C18.write-completes")
	if k.pos != k.nplan {
		vfPrune()
	}
	vfAssert(k.nout == n, "C18.write-exactly-once")
	for i := 0; i < n; i++ {
		vfAssert(k.out[i] == data[i], "C18.write-in-order")
	}
	vfCover("C18.write.end")
}

func H_C18_writev() {
	k := c18Setup(4)
	cnt := vfShape("slices", 1, 3)
	var ds [3][]byte
	total := 0
	for i := 0; i < cnt; i++ {
		l := vfShape("slen", 1, 3)
		ds[i] = vfBytes(l)
		total += l
	}
	for i := 0; i < k.nplan; i++ {
		k.plan[i] = vfShape("ret", 0, total)
	}
	var err error
	switch cnt {
	case 1:
		err = k.conn.writev(ds[0])
	case 2:
		err = k.conn.writev(ds[0], ds[1])
	default:
		err = k.conn.writev(ds[0], ds[1], ds[2])
	}
	vfAssert(err == nil, "C18.writev-completes")
	if k.pos != k.nplan {
		vfPrune()
	}
	vfAssert(k.nout == total, "C18.writev-exactly-once")
	p := 0
	for i := 0; i < cnt; i++ {
		for j := range ds[i] {
			vfAssert(k.out[p] == ds[i][j], "C18.writev-in-order")
			p++
		}
	}
	vfCover("C18.writev.end")
}

// (b) reader: the callback always sees the unconsumed bytes followed by the new ones
type c18Callback struct {
	k        *c18Kernel
	consumed int // bytes of the inbound stream consumed by the callback so far
	calls    int
	pace     [6]int // how much to consume per call (shape)
}

func (cb *c18Callback) onEventData(buf []byte, conn eventConn) error {
	k := cb.k
	// buf must be exactly in[consumed : inpos]
	vfAssert(len(buf) == k.inpos-cb.consumed, "C18.callback-sees-unconsumed-plus-new.len")
	for i := range buf {
		vfAssert(buf[i] == k.in[cb.consumed+i], "C18.callback-sees-unconsumed-plus-new.bytes")
	}
	want := 0
	if cb.calls < 6 {
		want = cb.pace[cb.calls]
	}
	cb.calls++
	if want > len(buf) {
		vfPrune()
	}
	cb.consumed += want
	conn.commitRead(want)
	return nil
}
func (cb *c18Callback) onRemoteClose() {}
func (cb *c18Callback) onLocalClose()  {}

func H_C18_read() {
	bufLen := vfShape("buflen", 1, 4)
	k := c18Setup(bufLen)
	k.nin = vfShape("inbound", 1, 10)
	in := vfBytes(k.nin)
	for i := 0; i < k.nin; i++ {
		k.in[i] = in[i]
	}
	cb := &c18Callback{k: k}
	k.conn.callback = cb
	rounds := vfShape("readyEvents", 1, 3)
	for i := 0; i < k.nplan; i++ {
		k.plan[i] = vfShape("ret", 0, 4)
	}
	for r := 0; r < rounds; r++ {
		cb.pace[r] = vfShape("consume", 0, 6)
		err := k.conn.onReadReady()
		vfAssert(err == nil, "C18.onReadReady")
		vfAssert(k.conn.readStartOff >= 0 && k.conn.readStartOff <= k.conn.readEndOff && k.conn.readEndOff <= len(k.conn.readBuffer), "C18.offsets-within-buffer")
	}
	if k.pos != k.nplan {
		vfPrune()
	}
	vfAssert(k.conn.readEndOff-k.conn.readStartOff == k.inpos-cb.consumed, "C18.unconsumed-retained")
	vfCover("C18.read.end")
}
