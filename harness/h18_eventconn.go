//go:build verif

package shmipc

import (
	"unsafe"

	syscall "golang.org/x/sys/unix"
)

// C18: the event connection moves bytes exactly once and in order under any kernel IO.
// Real code: connEventHandler.write / writev / doWritev / onReadReady / maybeExpandReadBuffer /
// commitRead / onWriteReady. The kernel is a model: SYS_WRITE / SYS_WRITEV accept any prefix
// (1..remaining bytes), or answer EAGAIN (a write-ready notification follows), or fail; SYS_READ
// delivers chunks of the inbound stream of any size, then EAGAIN.

type c18Kernel struct {
	conn    *connEventHandler
	out     [32]byte // bytes accepted by the socket, in order
	nout    int
	plan    [12]int // per syscall: -1 error, 0 EAGAIN, k>0 bytes
	nplan   int
	pos     int
	in      [32]byte // inbound stream
	nin     int
	inpos   int
	sysErrs int
	// auto mode (H_C18_senders): the partialAt-th write call accepts only partialN bytes, the
	// eagainAt-th answers EAGAIN, every other one accepts everything
	auto      bool
	calls     int
	partialAt int
	partialN  int
	eagainAt  int
}

var c18K *c18Kernel

func c18ByteAt(base *byte, i int) byte {
	return *(*byte)(unsafe.Pointer(uintptr(unsafe.Pointer(base)) + uintptr(i)))
}

func c18SetByteAt(base *byte, i int, v byte) {
	*(*byte)(unsafe.Pointer(uintptr(unsafe.Pointer(base)) + uintptr(i))) = v
}

func (k *c18Kernel) next() int {
	if k.pos >= k.nplan {
		vfPrune() // the plan is shorter than the run: not a case
	}
	v := k.plan[k.pos]
	k.pos++
	return v
}

func vfstub_Syscall(trap, a1, a2, a3 uintptr) (uintptr, uintptr, syscall.Errno) {
	k := c18K
	switch trap {
	case syscall.SYS_WRITE:
		n := int(a3)
		v := 0
		if k.auto {
			k.calls++
			v = n
			if k.calls == k.partialAt && k.partialN < n {
				v = k.partialN
			}
			if k.calls == k.eagainAt {
				v = 0
			}
		} else {
			v = k.next()
		}
		if v == 0 {
			asyncNotify(k.conn.onWriteReadyCh) // epoll reports write-readiness later
			return 0, 0, syscall.EAGAIN
		}
		if v < 0 {
			return 0, 0, syscall.EPIPE
		}
		if v > n {
			vfPrune()
		}
		base := (*byte)(unsafe.Pointer(a2))
		for i := 0; i < v; i++ {
			k.out[k.nout] = c18ByteAt(base, i)
			k.nout++
		}
		return uintptr(v), 0, 0
	case syscall.SYS_WRITEV:
		cnt := int(a3)
		v := k.next()
		if v == 0 {
			asyncNotify(k.conn.onWriteReadyCh)
			return 0, 0, syscall.EAGAIN
		}
		if v < 0 {
			return 0, 0, syscall.EPIPE
		}
		// locate the first iovec of the call inside the connection's array
		first := -1
		for i := 0; i < 4; i++ {
			if unsafe.Pointer(&k.conn.ioves[i]) == unsafe.Pointer(a2) {
				first = i
			}
		}
		vfAssert(first >= 0, "C18.writev-passes-its-iovec-array")
		total := 0
		for i := 0; i < cnt; i++ {
			total += int(k.conn.ioves[first+i].Len)
		}
		if v > total {
			vfPrune()
		}
		left := v
		for i := 0; i < cnt; i++ {
			iv := &k.conn.ioves[first+i]
			for j := 0; j < int(iv.Len); j++ {
				if left == 0 {
					break
				}
				k.out[k.nout] = c18ByteAt(iv.Base, j)
				k.nout++
				left--
			}
		}
		return uintptr(v), 0, 0
	}
	vfAssert(false, "C18.unexpected-syscall")
	return 0, 0, 0
}

func vfstub_RawSyscall(trap, a1, a2, a3 uintptr) (uintptr, uintptr, syscall.Errno) {
	k := c18K
	vfAssert(trap == syscall.SYS_READ, "C18.unexpected-rawsyscall")
	room := int(a3)
	v := k.next()
	if v == 0 || k.inpos == k.nin {
		return 0, 0, syscall.EAGAIN
	}
	if v < 0 {
		return 0, 0, syscall.ECONNRESET
	}
	vfAssert(room > 0, "C18.read-always-offers-room")
	if v > room || v > k.nin-k.inpos {
		vfPrune()
	}
	base := (*byte)(unsafe.Pointer(a2))
	for i := 0; i < v; i++ {
		c18SetByteAt(base, i, k.in[k.inpos])
		k.inpos++
	}
	return uintptr(v), 0, 0
}

func c18Setup(bufLen int) *c18Kernel {
	k := &c18Kernel{}
	k.conn = &connEventHandler{readBuffer: make([]byte, bufLen), onWriteReadyCh: make(chan struct{}, 1), fd: 3}
	c18K = k
	k.nplan = vfShape("syscalls", 1, 8)
	return k
}

// (a) writer: write(data) and writev(d0,d1,d2) under every partial-write / EAGAIN pattern
func H_C18_write() {
	k := c18Setup(4)
	n := vfShape("len", 1, 5)
	data := vfBytes(n)
	for i := 0; i < k.nplan; i++ {
		k.plan[i] = vfShape("ret", 0, n)
	}
	err := k.conn.write(data)
	vfAssert(err == nil, "C18.write-completes")
	if k.pos != k.nplan {
		vfPrune()
	}
	vfAssert(k.nout == n, "C18.write-exactly-once")
	for i := 0; i < n; i++ {
		vfAssert(k.out[i] == data[i], "C18.write-in-order")
	}
	vfCover("C18.write.end")
}

func H_C18_writev() {
	k := c18Setup(4)
	cnt := vfShape("slices", 1, 3)
	var ds [3][]byte
	total := 0
	for i := 0; i < cnt; i++ {
		l := vfShape("slen", 1, 3)
		ds[i] = vfBytes(l)
		total += l
	}
	for i := 0; i < k.nplan; i++ {
		k.plan[i] = vfShape("ret", 0, total)
	}
	var err error
	switch cnt {
	case 1:
		err = k.conn.writev(ds[0])
	case 2:
		err = k.conn.writev(ds[0], ds[1])
	default:
		err = k.conn.writev(ds[0], ds[1], ds[2])
	}
	vfAssert(err == nil, "C18.writev-completes")
	if k.pos != k.nplan {
		vfPrune()
	}
	vfAssert(k.nout == total, "C18.writev-exactly-once")
	p := 0
	for i := 0; i < cnt; i++ {
		for j := range ds[i] {
			vfAssert(k.out[p] == ds[i][j], "C18.writev-in-order")
			p++
		}
	}
	vfCover("C18.writev.end")
}

// (b) reader: the callback always sees the unconsumed bytes followed by the new ones
type c18Callback struct {
	k        *c18Kernel
	consumed int // bytes of the inbound stream consumed by the callback so far
	calls    int
	pace     [6]int // how much to consume per call (shape)
}

func (cb *c18Callback) onEventData(buf []byte, conn eventConn) error {
	k := cb.k
	// buf must be exactly in[consumed : inpos]
	vfAssert(len(buf) == k.inpos-cb.consumed, "C18.callback-sees-unconsumed-plus-new.len")
	for i := range buf {
		vfAssert(buf[i] == k.in[cb.consumed+i], "C18.callback-sees-unconsumed-plus-new.bytes")
	}
	want := 0
	if cb.calls < 6 {
		want = cb.pace[cb.calls]
	}
	cb.calls++
	if want > len(buf) {
		vfPrune()
	}
	cb.consumed += want
	conn.commitRead(want)
	return nil
}
func (cb *c18Callback) onRemoteClose() {}
func (cb *c18Callback) onLocalClose()  {}

func H_C18_read() {
	bufLen := vfShape("buflen", 1, 4)
	k := c18Setup(bufLen)
	k.nin = vfShape("inbound", 1, 10)
	in := vfBytes(k.nin)
	for i := 0; i < k.nin; i++ {
		k.in[i] = in[i]
	}
	cb := &c18Callback{k: k}
	k.conn.callback = cb
	rounds := vfShape("readyEvents", 1, 3)
	for i := 0; i < k.nplan; i++ {
		k.plan[i] = vfShape("ret", 0, 4)
	}
	for r := 0; r < rounds; r++ {
		cb.pace[r] = vfShape("consume", 0, 6)
		err := k.conn.onReadReady()
		vfAssert(err == nil, "C18.onReadReady")
		vfAssert(k.conn.readStartOff >= 0 && k.conn.readStartOff <= k.conn.readEndOff && k.conn.readEndOff <= len(k.conn.readBuffer), "C18.offsets-within-buffer")
	}
	if k.pos != k.nplan {
		vfPrune()
	}
	vfAssert(k.conn.readEndOff-k.conn.readStartOff == k.inpos-cb.consumed, "C18.unconsumed-retained")
	vfCover("C18.read.end")
}

// (c) two senders: the fast path of wakeUpPeer (any goroutine) and the send loop share the
// connection through Session.writing and the continue-token channel. The fast-path writer is
// stopped in front of every synchronisation operation - in particular in the middle of its event,
// after a partial kernel write - while the send loop handles a queued event; an earlier fast-path
// write has left a stale continue token. No event may be written into the middle of another.
type c18Wrap struct {
	real    *connEventHandler
	s       *Session
	n       int
	closeAt int
}

func (c *c18Wrap) commitRead(n int)                       { c.real.commitRead(n) }
func (c *c18Wrap) setCallback(cb eventConnCallback) error { return nil }
func (c *c18Wrap) writev(data ...[]byte) error            { return c.real.writev(data...) }
func (c *c18Wrap) close() error                           { return nil }
func (c *c18Wrap) write(data []byte) error {
	c.n++
	me := c.n
	err := c.real.write(data)
	if me == c.closeAt {
		// the session is shut down right after this event: lets the send loop return
		close(c.s.shutdownCh)
	}
	return err
}

func H_C18_senders() {
	vfInfeasibleOK()
	k := c18Setup(8)
	k.auto = true
	k.partialAt = 2
	k.partialN = vfShape("partial", 1, 7)
	k.eagainAt = 3 * vfShape("eagain", 0, 1)
	const qc = 2
	qmem := make([]byte, queueHeaderLength+qc*queueElementLen)
	q := createQueueFromBytes(qmem, qc)
	s := &Session{queueManager: &queueManager{sendQueue: q, recvQueue: q}, communicationVersion: 2, config: &Config{},
		sendCh: make(chan sendReady, 4), notifyContinueWriteCh: make(chan struct{}, 1), shutdownCh: make(chan struct{})}
	wr := &c18Wrap{real: k.conn, s: s, closeAt: 3}
	s.eventConn = wr
	// an earlier fast-path wake-up: complete, leaves its continue token behind
	vfAssert(s.wakeUpPeer() == nil, "C18.senders.setup")
	vfAssert(k.nout == headerSize, "C18.senders.first-event-written")
	*q.workingFlag = 0 // the peer's consumer went idle again
	// another goroutine queued an event for the send loop
	body := vfBytes(3)
	s.sendCh <- sendReady{Body: body}
	cut := vfShape("cut", 0, 16)
	fired := false
	vfSyncHook(cut, func() {
		fired = true
		s.send() // handles the queued event; returns when the session shuts down right after it
	})
	vfAssert(s.wakeUpPeer() == nil, "C18.senders.second-wakeup")
	vfStallHookOff()
	if !fired {
		vfPrune()
	}
	// on the socket: the first polling event, then the second polling event and the body, each
	// contiguous, in either order
	poll := pollingEventWithVersion[2]
	vfAssert(k.nout == 2*headerSize+3, "C18.every-event-written-exactly-once")
	bodyFirst := true
	for i := 0; i < 3; i++ {
		if k.out[headerSize+i] != body[i] {
			bodyFirst = false
		}
	}
	pollFirst := true
	for i := 0; i < headerSize; i++ {
		if k.out[headerSize+i] != poll[i] {
			pollFirst = false
		}
	}
	okA := bodyFirst
	for i := 0; i < headerSize; i++ {
		if k.out[headerSize+3+i] != poll[i] {
			okA = false
		}
	}
	okB := pollFirst
	for i := 0; i < 3; i++ {
		if k.out[2*headerSize+i] != body[i] {
			okB = false
		}
	}
	vfAssert(okA || okB, "C18.events-are-not-interleaved-on-the-socket")
	vfCover("C18.senders.end")
}
