#!/usr/bin/env python3
"""Renders known_findings.json as the plain lines the interface describes (known_findings.txt)
and stores the same line in each entry ("line")."""
import json
k = json.load(open('/verif/known_findings.json'))
lines = []
for e in k:
    if e["kind"] == "fixed":
        e["line"] = "fixed: property=%s %s %s" % (e["property"], e["commit"], e["what"])
    else:
        e["line"] = "known: property=%s %s (matched by assertion id prefix %r%s) %s" % (
            e["property"], e["id"], e.get("match", ""), (" in harness " + e["harness"]) if e.get("harness") else "", e["what"])
    lines.append(e["line"])
json.dump(k, open('/verif/known_findings.json', 'w'), indent=1)
open('/verif/known_findings.txt', 'w').write("\n".join(lines) + "\n")
print(len(lines), "entries")
