#!/bin/bash
# runs the thorough tier of each property once (no evidence), logs verdict and wall time
cd /verif
for p in "$@"; do
  s=$(date +%s)
  out=$(timeout ${THOROUGH_TIMEOUT:-2400} ./bin/gosmt -prop $p -tier thorough -no-evidence -workers 14 2>&1 | grep -v "^\[" | tail -4 | cut -c1-400)
  e=$(date +%s)
  echo "=== $p thorough wall=$((e-s))s"
  echo "$out"
done
