#!/bin/bash
# runs the thorough tier of each property once (no evidence), logs verdict and wall time
cd /verif
for p in "$@"; do
  s=$(date +%s)
  out=$(timeout 3000 ./bin/gosmt -prop $p -tier thorough -no-evidence -workers 12 2>&1 | grep -v "^\[" | tail -6 | cut -c1-400)
  rc=$?
  e=$(date +%s)
  echo "=== $p thorough wall=$((e-s))s"
  echo "$out"
done
