#!/bin/bash
# runs the quick check of every claimed property against /repo (writes evidence/<id>.json), validates
cd /verif
for p in C12 C17 C13 C14 C05 C19 C01 C02 C03 C04 C06 C07 C08 C09 C10 C11 C15 C16 C18 C19 C20; do
  s=$(date +%s)
  ./check.sh $p quick > /verif/.work/regen_$p.log 2>&1
  rc=$?
  e=$(date +%s)
  echo "$p exit=$rc wall=$((e-s))s $(grep -c '^VIOLATION' /verif/.work/regen_$p.log) violations, $(grep -c '^KNOWN-FINDING' /verif/.work/regen_$p.log) known"
done
python3-vt - <<'PY'
import json, jsonschema, glob
sch = json.load(open('/root/.vp/EVIDENCE.schema.json'))
for f in sorted(glob.glob('/verif/evidence/C*.json')):
    try:
        jsonschema.validate(json.load(open(f)), sch); print(f, 'valid')
    except Exception as ex:
        print(f, 'INVALID', str(ex)[:200])
PY
