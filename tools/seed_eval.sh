#!/bin/bash
# runs every kept seeded change against the check(s) of the property it breaks; prints one line per run
cd /verif
run() { # seed prop args...
  local seed="$1"; shift; local prop="$1"; shift
  local out; out=$(timeout 2400 tools/seedtest.sh /verif/seeded/$seed/patch.diff "$prop" "$@" 2>&1 | tail -3)
  local rc; rc=$(echo "$out" | grep -o "exit=[0-9]*" | tail -1)
  local summ; summ=$(echo "$out" | grep "tier=" | tail -1 | sed 's/queries=.*wall/wall/' | cut -c1-160)
  echo "SEED $seed prop=$prop args=[$*] $rc :: $summ"
}
run C01-m1 C01 -tier quick
run C01-m1 C02 -tier quick
run C01-m2 C01 -tier quick
run C01-m2 C02 -tier quick
run C02-m1 C02 -tier quick
run C02-m2 C02 -tier quick
run C03-m1 C03 -tier quick
run C03-m2 C03 -tier quick
run C04-m1 C04 -tier quick
run C04-m2 C04 -tier quick
run C05-m1 C05 -tier quick
run C05-m2 C05 -tier quick
run C06-m1 C06 -tier quick
run C06-m1 C07 -tier quick
run C06-m2 C06 -tier quick
run C06-m2 C09 -tier quick
run C08-m1 C08 -tier quick
run C08-m2 C08 -tier quick
run C08-m2 C09 -tier quick
run C13-m1 C13 -tier quick -shape len=8
run C13-m2 C18 -tier quick
run C15-m1 C15 -tier quick
run C15-m2 C15 -tier quick
run C18-m1 C18 -tier quick
run C18-m2 C18 -tier quick
