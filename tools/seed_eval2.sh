#!/bin/bash
cd /verif
for p in C07 C09 C10 C14 C16 C20; do for m in m1 m2; do tools/verify_seed.sh /tmp/seed/$p /tmp/seed/$p/_out/$m '^TestDemo'; done; done
tools/verify_seed.sh /tmp/seed/C01 /tmp/seed/C01/_out/m2 '^TestDemo'
run() { local seed="$1"; shift; local prop="$1"; shift
  local out; out=$(timeout 2400 tools/seedtest.sh /verif/seeded/$seed/patch.diff "$prop" "$@" 2>&1 | tail -3)
  local rc; rc=$(echo "$out" | grep -o "exit=[0-9]*" | tail -1)
  local summ; summ=$(echo "$out" | grep "tier=" | tail -1 | sed 's/queries=.*wall/wall/' | cut -c1-160)
  echo "SEED $seed prop=$prop args=[$*] $rc :: $summ"; }
run C07-m1 C07 -tier quick
run C07-m2 C07 -tier quick
run C09-m1 C09 -tier quick
run C09-m2 C09 -tier quick
run C10-m1 C10 -tier quick
run C10-m2 C10 -tier quick
run C14-m1 C14 -tier quick
run C14-m2 C14 -tier quick
run C16-m1 C16 -tier quick
run C16-m2 C16 -tier quick
run C20-m1 C20 -tier quick
run C20-m1 C10 -tier quick
run C20-m2 C20 -tier quick
run C06-m2 C09 -tier quick
run C08-m2 C09 -tier quick
run C08-m1 C08 -tier quick
