#!/bin/bash
# usage: tools/seedtest.sh <patch.diff> <prop> [extra gosmt args...]
# applies a seeded change in a scratch worktree (outside /repo and /verif), runs the check against it, removes the worktree
P="$1"; shift; PROP="$1"; shift
WT=$(mktemp -d /tmp/wt-seed-XXXXXX)
rmdir "$WT"
git -C /repo worktree add -q --detach "$WT" HEAD || exit 3
( cd "$WT" && { git apply "$P" 2>/dev/null || git apply "$(dirname "$P")/patch_rebased.diff"; } ) || { echo "patch does not apply"; git -C /repo worktree remove --force "$WT"; exit 3; }
cd /verif
${GOSMT:-./bin/gosmt} -repo "$WT" -prop "$PROP" -no-evidence "$@" 2>&1 | grep -v "^INCONCLUSIVE\|^\[" | tail -6
rc=${PIPESTATUS[0]}
git -C /repo worktree remove --force "$WT"
echo "exit=$rc"
