#!/bin/bash
# usage: tools/seedtest.sh <patch.diff> <prop> [extra gosmt args...]  -- apply a seeded change, run the check, revert
P="$1"; shift; PROP="$1"; shift
cd /repo || exit 3
if ! git diff --quiet; then echo "repo dirty"; exit 3; fi
git apply "$P" || { echo "patch does not apply"; exit 3; }
cd /verif
./bin/gosmt -prop "$PROP" -no-evidence "$@" 2>&1 | grep -v "^INCONCLUSIVE\|^\[" | tail -6
rc=${PIPESTATUS[0]}
cd /repo && git checkout -- . && git status --short
echo "exit=$rc"
