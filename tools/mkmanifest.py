#!/usr/bin/env python3
"""Generates /verif/MANIFEST.json from the table below (kept next to the registry of harnesses)."""
import json, sys

TECH = ("bounded symbolic execution of the real functions from go/ssa (own executor gosmt), "
        "symbolic inputs%s, obligations discharged by SMT (z3 5.1 / cvc5 1.0 / cvc5 --solve-bv-as-int), "
        "sat models replayed natively against the real build (concurrent ones under a controlled scheduler at statement granularity, else reported as model-level traces)")

CLAIMED = {
  # id: (category, text, note, design_ref, concurrent?)
}

def claim(pid, text, note, ref, conc=False):
    CLAIMED[pid] = ("model_checking", text, note, ref, conc)

claim("C01",
  "Bounded model checking of the real pop/push (and bufferHeader/bufferSlice helpers) from an arbitrary quiescent free list: one allocation that may stall anywhere against an adversary of K allocate/recycle operations, and T symmetric threads, under a symbolic schedule at single shared-access granularity (R rounds). Oracle: ghost owner per slot, slot-boundary/extent/capacity of every returned buffer, payload+header signature re-read before recycle. unsat = no schedule/inputs within the bounds break it. Hook families (sequential, stall point enumerated): a stalled allocation (hook) and a stalled recycle (hookpush: e.g. between tail CAS and link, recycled slices carrying a chain link) against P earlier and K concurrent adversary operations.",
  "sequential consistency; bounds (slots, ops, threads, rounds, retry unrollings with unwinding assertions) as in evidence; sync.Pool.Get modelled as New(); environment-held slots never touched",
  "DESIGN.md 9/C01", True)
claim("C02",
  "Same runs as C01 with the conservation oracle: after every holder returned its buffers the free count equals the initial free set and the chain walk from head visits each free slot exactly once and ends at tail (harness walker and the repo's computeFreeSliceNum); monitor thread: free+held <= capacity at an arbitrary moment; sequential twin: failed allocation consumes nothing, last slot never allocated.",
  "as C01", "DESIGN.md 9/C02", True)
claim("C04",
  "Real queue put/pop/size/isFull/isEmpty: (a) one inductive step from an arbitrary valid ring (64-bit cursors fully symbolic, any fill, arbitrary slot contents) against a FIFO model; (b) P producers x p puts (producer view with its mutex) vs the single consumer (mapping view) and a monitor under a symbolic schedule: exactly-once, intact, per-producer order, non-overlapping order (ghost tickets), bounded outstanding, full-only-when-full, everything delivered.",
  "sequential consistency; capacities from the listed set; cursor overflow at 2^63 excluded; concurrent family uses cursor phase 0..255",
  "DESIGN.md 9/C04", True)
claim("C05",
  "Real put, wakeUpPeer (fast path through writeEventData to a counting eventConn, slow path through sendCh), markWorking/markNotWorking and handlePolling (real getStream on an empty table) under a symbolic schedule: when producers are done, the event loop is idle and no notification is in flight, the queue is empty; at most one notification per accepted element. Through the real sessions (H_SM_wakewindow): a Flush stopped at every synchronisation point (between its queue put and its wake-up among others) while the server's event loop handles a late polling event and drains the queue, a further message follows: no element is in the queue without a polling event under way. Sync-point hook family: the main call runs sequentially on the real code and is stopped in front of its k-th synchronisation operation (atomic, lock acquisition, channel operation; k is enumerated) while a closure standing for the other goroutines / the peer runs to completion.",
  "sequential consistency; elements carry status=closed so the drain loop body is `continue`; the send loop's write of queued polling events is abstracted as 'in flight'; channel contents are counts; the session-level harness explores ONE preemption per run",
  "DESIGN.md 9/C05", True)
claim("C15",
  "Stream-pool ring (push/pop): one inductive step from an arbitrary valid ring state (64-bit cursors symbolic, capacity from a listed set) with a symbolic operation sequence against a FIFO model; SessionManager.GetStream/PutBack over the session model: histories of get/request/deliver/answer/read/put-back/peer-close by two callers: every stream handed out is open, on a live session, carries no old bytes, is clean, is not held by the other caller; active-stream count == held + pooled after every step. Put-back window (H_C15_window, sync-point hook): PutBack of a stream whose answer is under way is stopped in front of every synchronisation operation while the answer arrives or the server closes the stream; the next GetStream hands out an open, clean stream without old bytes. Two genuine defects found and fixed (discarded pooled streams were not closed; a response arriving after put-back was handed to the next caller).",
  "sequential histories; concurrency of callers is covered only through the lock discipline of the ring (not checked here); session loss not in the histories",
  "DESIGN.md 9/C15")

claim("C03",
  "Real createBufferManager/createFreeBufferList/mappingBufferManager/mappingFreeBufferList on small memory lengths (shape) with 1-3 fully symbolic (size, percent) uint32 pairs (sizes <= capacity, sorted or not, arbitrary old memory contents): create fails with an error or every symbolic slot of every class lies inside the mapping behind its headers, classes are disjoint, the created list header is as specified, and the peer's mapping yields the same classes, capacities, offsets; the same checks for two and three classes with sizes and percents from lists (H_C03_sized: configurations enumerated, old memory contents and the examined slot symbolic) on every listed memory length; real createQueueManagerWithMemFd/mappingQueueManagerMemfd over an OS model: extents, capacities, cross-wiring (what A sends B receives and vice versa, same cells).",
  "memory lengths from a listed set up to 300 bytes (the full-width 2^32 arithmetic is NOT claimed); fully symbolic sizes/percents: one class on every length, two classes only up to 43 bytes (larger ones are not decided within 20 min); OS model: mapping the same fd yields the same region (assumed kernel guarantee); file back-end differs only in OS calls and is not run",
  "DESIGN.md 15.3/C03")
claim("C06",
  "Writer side: up to W calls of WriteBytes/Reserve/WriteByte/WriteString of every size class relative to the slice capacities, flush points, every slice-size configuration and exhaustion degree, through the real transport (Stream.Flush -> queue or socket fallback -> handleEvents/handlePolling/handleFallbackData -> pendingData.moveTo); reader side: ReadBytes/Peek/Discard/ReadByte/ReadString/Read of every size; bytes are symbolic and compared position by position with a byte-queue model; Len == flushed - consumed after every call; everything comes back after release.",
  "shape bounds as in evidence (calls, sizes, configurations); Session.waitForSend is stubbed to an ordered wire; reads never exceed what was delivered (blocking reads are C11)",
  "DESIGN.md 15.3/C06")
claim("C07",
  "Session model histories (real OpenStream/WriteBytes/Flush/handleEvents/ReadBytes/Close on two real sessions over one buffer manager and a cross-wired queue pair): a stream only ever reads bytes written to it, in flush order, across shared-memory and fallback transport; reads after a peer close drain what was flushed before reporting the end. Control events pass through one reused connection read buffer per direction (fallback payloads must not alias it).",
  "sequential histories only (one step at a time) plus the single-preemption windows of H_SM_flushwindow / H_SM_wakewindow: the concurrent orderings named in the property are NOT covered beyond the recorded finding F-CLOSEOVERTAKE; 1-2 streams",
  "DESIGN.md 15.3/C07")
claim("C08",
  "ReadBytes/Peek results are remembered across further reads of every kind and across unrelated allocate/scribble/recycle activity on the same buffer manager: contents stay equal to the model bytes and the slot a zero-copy result lives in is never on its class's free chain until ReleasePreviousRead; afterwards all buffers are available again. Over the session model (H_C08_late): a zero-copy result is held while the sender closes the stream and socket-fallback data flushed before the close arrives after the close notification, with other traffic allocating meanwhile.",
  "the interference is a harness loop over the real pop/recycleBuffer; close/late-data interplay only in the one ordering of H_C08_late",
  "DESIGN.md 15.3/C08")
claim("C09",
  "Session model histories of up to L real API steps on 1-2 streams (write+flush of sizes that use one slice, several slices or the socket fallback; deliver either direction; reads; release; close on either end at any point; queue-full), then wind-down: both ends close everything, all events are delivered, and every size class must again have its full free count with a consistent free chain. Flush-window family (H_SM_flushwindow): with the send queue full a further Flush enters its retry loop and is stopped at every synchronisation point while the server consumes the queue or closes the stream (close delivered to the client): Flush returns a documented result, leaves nothing buffered, and the wind-down census holds. Sync-point hook family: the main call runs sequentially on the real code and is stopped in front of its k-th synchronisation operation (atomic, lock acquisition, channel operation; k is enumerated) while a closure standing for the other goroutines / the peer runs to completion.",
  "sequential histories plus ONE preemption of a Flush in its retry loop; callback mode and pooled streams are not in this harness (pool: see C15); timers are modelled as expired, a select takes ready non-timer cases first",
  "DESIGN.md 15.3/C09")
claim("C10",
  "Session model histories: stream state only moves forward (monitor after every step); after a local Close the stream is closed, absent from the session's stream table and stays absent (a close notification must not re-create it), Flush fails with ErrStreamClosed and drops its data, reads fail; after delivery the peer is not open any more and reads report the end after draining; repeated Close returns nil; no active stream is left on either side after wind-down. Callback mode (H_C20_inline, H_C20_window): Close from inside OnData (after consuming everything or one byte), the peer's Close arriving while OnData runs or at any synchronisation point of the callback goroutine: state final, exactly one close report, peer notified - with KNOWN FINDINGS F-CLOSEOVERTAKE, F-ZOMBIE (F-CBCLOSE - Close while OnData runs: no report, peer not notified - was found here and is fixed). Both ends closing at once (H_SM_closewindow): the client's Close stopped in front of every synchronisation operation while the server closes (notifications in either order) or server data arrives: both end up closed, nothing stays registered, census holds. Two genuine defects found and fixed (F-CLOSERACE, F-CBCLOSE).",
  "sequential histories and single-preemption windows; simultaneous Close calls on both ends from concurrent goroutines are NOT covered beyond those; known findings are matched by exact assertion id / harness history predicate",
  "DESIGN.md 15.3/C10")
claim("C13",
  "Real handleEvents and every protocol handler (polling, stream close, fallback data, hot restart incl. the posted lambda and SessionManager.handleEvent/handleSessionManagerHotRestart, hot restart ack) on an arbitrary byte string (length = shape, bytes symbolic) for four session roles: no panic (index, slice, nil, makeslice, type assertion, nil func), consumed within the buffer. Two genuine defects were found and fixed (known_findings.json).",
  "handshake phase: arbitrary headers beyond 8 bytes are not decided within minutes (symbolic body length) and are replaced by well-formed headers with arbitrary bodies; the chunking differential (commitRead) is not covered by this harness (the reader bookkeeping is C18); queue empty; goroutines started by handlers are not run; recover() is modelled as 'no panic to recover': every panic is a violation",
  "DESIGN.md 15.3/C13")
claim("C18",
  "Real connEventHandler.write/writev/doWritev against a kernel model that accepts any prefix, answers EAGAIN or fails per call (pattern = shape): bytes reach the socket exactly once, in order; real onReadReady/maybeExpandReadBuffer/commitRead with chunked kernel reads and partial consumption: the callback always sees exactly the unconsumed bytes followed by the new ones, offsets stay inside the buffer, growth preserves content. Two senders (H_C18_senders): the fast path of wakeUpPeer is stopped in front of every synchronisation operation - also in the middle of its event after a partial kernel write - while the real send loop handles a queued event, with a stale continue token present: every event is written exactly once and none into the middle of another.",
  "small buffers and messages (shape bounds); the 1 MiB data threshold and the 4 MiB shrink path are not reached; writer exclusion through Session.writing is covered for ONE preemption of the fast-path writer by the send loop (sync-point hook), not for arbitrary schedules of several senders",
  "DESIGN.md 15.3/C18")
claim("C19",
  "streamWrapper over the session model: Write delivers all of p or fails, Read returns 1..len(p) bytes in order (0 for empty p), Close is idempotent and releases exactly one reference (WaitGroup never negative); Stream.Read contract for all slice layouts (C06 reader harness); every stream surfaces once through AcceptStream in sequential histories - with one KNOWN FINDING (late data for a stream the server already closed re-creates it).",
  "Listen/Accept over real unix sockets and deadlines are NOT covered; the listener harnesses examine one schedule of the listener's goroutines plus ONE Listener.Close at a synchronisation point; the conflicting-access check covers the paths of the executed Read/Write pair, scalars shared without synchronisation are listed, not obligations",
  "DESIGN.md 15.3/C19")

claim("C16",
  "Decidable fragment (bookkeeping): real Listener.HotRestart / Session.hotRestart / handleHotRestartAck / checkHotRestart / resetState with acknowledgements in any order, missing, or carrying a foreign epoch: one request per session, a second request is rejected while in progress, a foreign epoch changes no field, the ack count never goes negative, and the watcher always leaves the hot-restart state (done when every ack arrived, reset on timeout). Client side: real handleHotRestart + posted lambda + handleSessionManagerHotRestart + SessionManager.checkHotRestart with a stubbed newClientSession that may fail: a stale epoch changes nothing, moved pools carry a session of the announced epoch, old sessions are kept unclosed, one ack per session when all moved, the manager leaves the hot-restart state.",
  "tickers deliver two ticks and then the paired timeout fires (time is not modelled otherwise); newClientSession is a stub that may fail (symbolic): that the new session reaches the NEW server and that GetStream works at every moment are NOT covered; server side: the watcher is run by the harness; client side: the watcher goroutine the manager really starts is recorded with its path condition and run when the events have been handled (go_policy defer; natively the real goroutine is awaited)",
  "DESIGN.md 15.3/C16")

claim("C11",
  "Sequential fragment: a blocking call whose releasing event has already happened returns at once with the right result (enough data -> nil; peer close -> drained then ErrEndOfStream; local close -> closed-stream error; session close -> error and AcceptStream returns; deadline -> ErrTimeout, and no timeout when data is there; Flush returns although the queue stays full). In addition every sequential harness of this tree carries 'noblock' obligations on every lock, channel, select and WaitGroup wait it reaches. Release window (H_C11_window): a read that needs more than is there is stopped in front of every synchronisation operation (in particular between finding too little data and entering its wait) while enough data arrives / the peer closes / the stream is closed locally / the session is closed: it returns with the matching result and never waits for ever.",
  "NOT covered: more than one releasing event per run, elapsed time ('within a bounded time', 'never early'), handshake time-outs; timers are modelled as expired, a select takes ready non-timer cases first and a timer case only when nothing else is ready",
  "DESIGN.md 15.3/C11")
claim("C14",
  "Containment and resource census over an OS model (sequential): shared memory created by the real initMemManager (memfd) and mapped by the real mappingQueueManagerMemfd / getGlobalBufferManagerWithMemFd; one stream with a message in flight / delivered / partly read; then the connection reports remote close, or Close, or exitErr; the posted teardown lambdas run: nothing panics, the session is closed, Close is idempotent and the teardown is posted once, pending and later stream calls fail, exactly one close callback, no new stream, the peer session closes too, and the OS model's census of descriptors and mappings is back to zero. Deferred work (H_C14_lambdas): the real epollDispatcher.post/runLambda with lambdas posted before and during a running batch: each runs exactly once, none is left pending. Pending call (H_SM_flushwindow, adversary 'session death'): a Flush in its queue-full retry loop stopped at every synchronisation point while the session is closed and its teardown lambda runs (queue manager released): the Flush returns an error, leaves nothing buffered, later reads fail, nothing panics. Sync-point hook family: the main call runs sequentially on the real code and is stopped in front of its k-th synchronisation operation (atomic, lock acquisition, channel operation; k is enumerated) while a closure standing for the other goroutines / the peer runs to completion.",
  "NOT covered: more than one preemption, Close concurrent with traffic on the raw memory (use-after-unmap), a really killed process, real /proc census, the /dev/shm file back-end; OS model: Mmap of the same fd yields the same region, descriptors received over the socket are modelled as extra references; in the session model the queue memory is harness memory (unmap stubbed)",
  "DESIGN.md 15.3/C14")
CLAIM_EXTRA = {
 "C15": " Two callers at once (H_C15_parallel, conflicting-access check with happens-before through locks and atomics): one pool operation by each of two callers (get a fresh or pooled stream, put back, put back and get) touches no pointer-like Go-heap location or map in conflict unless the accesses are ordered by a lock hand-over (a stream one caller puts into the pool and the other takes out).",
 "C07": " Two streams at once (H_C07_parallel, conflicting-access check): one operation on each of two streams of a session (client flush through shared memory or the socket fallback, server read, client close, server answer, server close; all 25 pairs, three degrees of memory exhaustion) touch no pointer-like Go-heap location or map in conflict without a common lock or atomic access.",
 "C13": " Handshake phase (H_C13_handshake, goroutines as coroutines over the socket model of C12): the real newSession of a server or of a memfd client reads an arbitrary byte string (every byte symbolic; up to 8 bytes, i.e. one header, or a well-formed protocol 2 / protocol 3 header sequence followed by up to 9 arbitrary body bytes; whole or in two pieces) and then end of file: nothing panics and the call returns. One more genuine defect found and fixed (F-HSLEN: short share-memory event bodies crashed the handshake goroutine).",
 "C05": " Stalled send loop (H_C05_slowsend, goroutines as coroutines with the time model): the control connection is busy and sendCh is full while a producer's wake-up waits in the slow path of wakeUpPeer for longer than any time-out; then the connection gets free and the real Session.send loop writes what was queued: every producer returns, nothing is stranded at quiescence, a later element is announced too.",
 "C14": " Callback waiting for data (H_C14_cbwait, goroutines as coroutines): a callback-mode stream whose OnData waits in a read for bytes that never come when the peer dies / the session is closed / the connection fails: the teardown (which waits for the callback goroutine) returns, the parked read fails, census clean, exactly one close callback (the C14 view of F-CBCLOSE was found here; fixed).",
 "C19": " Listener (H_C19_listener, H_C19_listenwindow; real newListener/listenLoop/Accept/Close, streamWrapper.Close with every goroutine as a coroutine, stub raw listener and stub Server()): every stream surfaces exactly once, Accept fails after Close instead of hanging, a session ends exactly when the listener and all its connections let go, also when Listener.Close lands in front of any synchronisation operation of the connection intake (one genuine defect found and fixed: F-LNDROP). Full duplex (H_C19_duplex): one Read and one Write of the same adapter touch no pointer-like Go-heap location in conflict without a common lock or atomic access (conflicting-access check).",
}
claim("C20",
  "Callback mode with harness-scheduled goroutines: gopool.Go is replaced (model and native replay) by a recorder, the harness runs each started callback goroutine to completion right after the event or after later arrivals; per invocation OnData consumes everything / one byte / closes, and in further modes the peer flushes another message or closes WHILE OnData runs (the event loop handles it). Window family (H_C20_window): the callback goroutine is stopped in front of every synchronisation operation (flag store, close-state load, re-check CAS, pending-list lock, ...) while the event loop handles another arrival or the peer's close. Oracles: OnData never nests, bytes are offered in order and never twice, at quiescence every flushed byte has been offered and nothing is left in the receive buffer or pending list, no callback goroutine is left unstarted, the in-process flag is clear, nothing is offered after a local Close. One genuine defect found and fixed (F-CBLATE: data flushed before the peer's close was dropped when the close was handled first). Sync-point hook family: the main call runs sequentially on the real code and is stopped in front of its k-th synchronisation operation (atomic, lock acquisition, channel operation; k is enumerated) while a closure standing for the other goroutines / the peer runs to completion.",
  "ONE burst of event-loop activity per run at a synchronisation point of the callback goroutine (or inside OnData); two or more preemptions, and OnData running in parallel with itself through a second real goroutine, are outside the model; data-race freedom of Go-heap state is assumed",
  "DESIGN.md 15.3/C20")

claim("C17",
  "Real SessionManager.background (one watcher goroutine per pool), streamPool.close/getOrOpenStream, SessionManager.Close/GetStream/PutBack, Session.Close/onRemoteClose and - for the interplay with hot restart - handleHotRestart, handleSessionManagerHotRestart, SessionManager.checkHotRestart, executed symbolically with the goroutines as coroutines (run until blocked; timers fire only when nobody can proceed) over histories of 1-3 events on 1-2 pools: a session is lost while the server answers after 0-2 refused attempts; the server goes down and a session is lost (retries continue, calls fail); the server comes back; hot restart reaching all or some of the live sessions followed by the old server dropping the old sessions in either order; manager Close at any point (also during a rebuild against an unreachable server, and while a replacement session is being established: the stub then takes time). Oracle: a lost session is replaced by a live one of the current epoch after exactly fails+1 attempts, GetStream fails (never hangs) while there is none and works again afterwards, other pools are untouched, pools replaced by hot restart are not rebuilt again, Close returns, closes every session and nothing is rebuilt afterwards.",
  "TWO schedules per history (round-robin order, rotated): goroutines run until each blocks, a time-out or Sleep only fires when no party can proceed (at most 12 firings per scheduler run); the harness' events fall between such quiescent points, NOT in the middle of a watcher's step; newClientSession is a stub (reachability of the real server, dialling, the handshake are not part of this check); context.WithCancel is a stub with the documented contract; epochs are concrete (0 and 7); elapsed time ('after the rebuild interval') is not measured",
  "DESIGN.md 15.3/C17")

claim("C12",
  "Real newSession on both ends - memfd client (protocol 3) and /dev/shm file client (protocol 2) against the current server: initMemManager, initProtocol with its goroutine and InitializeTimeout, getProtocolInitializer (version announcement and answer), protocolInitializerV3 client/server, sendMemFdToPeer / handleShareMemoryByMemFd (metadata, ready-ack, descriptor passing, mapping, final ack), protocolInitializerV2 with sendShareMemoryByFilePath / handleShareMemoryByFilePath, createQueueManager / mappingQueueManager / getGlobalBufferManager (file back-end over a named-file OS model), blockReadFull/blockWriteFull, and newSession's failure clean-up, executed symbolically with every goroutine as a coroutine over a socket model (two blocking byte FIFOs + a FIFO of passed descriptors; the kernel takes writes whole or in pieces of 3/6 bytes) and the memfd/mmap OS model. Variants: client and server in one process (shared buffer-manager table, as in the repository's tests; natively replayable) and as two processes (each party has its own table: the server maps the buffer memory itself). Faults: one end stops answering in front of its k-th socket call (k = 0..7, either end); the n-th Fstat/Stat/Mmap call of the run fails (n = 1..6). Oracle: both calls return; both succeed with the same version (3 for the memfd client, 2 for the file client), both ends map the very same queue and buffer memory, what one end enqueues the other dequeues, or both fail (the end that stopped answering after the other end's last step may fail alone) and no mapping, descriptor or file is left. One genuine defect found and fixed (F-HSLEAK: descriptors/mappings left behind when setting up the memory fails half-way); KNOWN FINDING F-V2NOACK (the protocol 2 client succeeds without waiting for the server).",
  "the parties interact only through blocking FIFO operations (a Kahn network: one schedule stands for all; two rotations of the round-robin order are run), time-outs fire only when no party can proceed and never race with a late answer; file back-end cases and two-process cases are reported at model level (no native counterpart); NOT covered: tcp, older servers (maxSupportProtoVersion is a constant of the code), a peer that dies (closes the socket) or sends garbage (C13 covers post-handshake events only), wall-clock time, kernel aliasing of MAP_SHARED pages and real descriptor passing (OS model: mapping the same file yields the same region), the descriptor obtained from getConnDupFd; VerifyConfig is stubbed (small configuration)",
  "DESIGN.md 15.3/C12")

NOT_APPLICABLE = {
}

def main():
    reg = json.load(open("/verif/harness/registry.json"))
    checks = []
    for pid in sorted(CLAIMED):
        if pid not in reg:
            continue
        cat, text, note, ref, conc = CLAIMED[pid]
        checks.append({
            "property_id": pid,
            "quick_cmd": "./check.sh %s quick" % pid,
            "thorough_cmd": "./check.sh %s thorough" % pid,
            "evidence_file": "/verif/evidence/%s.json" % pid,
            "replay_cmd_template": "cat {path}  # the check itself re-runs the replay; the file holds inputs, shape, schedule and trace",
            "engine": "gosmt",
            "level_claimed": {"category": cat, "text": text + CLAIM_EXTRA.get(pid, ""), "design_ref": ref},
            "level_note": note,
            "technique": TECH % (" and a symbolic thread schedule (lazy round-robin sequentialisation)" if conc else "") + (
                "; goroutines started by the code under test run as coroutines of the symbolic run (parked at blocking operations, time-outs fire at quiescence)" if pid in ("C05", "C12", "C13", "C14", "C17", "C19") else ""),
        })
    na = [{"property_id": p, "reason": r} for p, r in sorted(NOT_APPLICABLE.items())]
    allp = ["C%02d" % i for i in range(1, 21)]
    for p in allp:
        if p not in CLAIMED and p not in NOT_APPLICABLE:
            na.append({"property_id": p, "reason": "no check registered yet in this tree (work in progress; see DESIGN.md section 13 for the order of work)"})
    man = {
        "version": 1,
        "setup_cmd": "cd /verif/engine && GOFLAGS=-mod=mod GOPROXY=off GOSUMDB=off GOTOOLCHAIN=local go build -o /verif/bin/gosmt ./cmd/gosmt",
        "hooks": {
            "guard": "verif",
            "enable": "no files in /repo: harnesses, intrinsic declarations and stubs are injected through go/packages Overlay and `go test -overlay` with -tags verif",
            "baseline_off_cmd": "cd /repo && GOFLAGS=-mod=mod go test -json -vet=off -count=1 -timeout 25m ./...",
            "source_commits": [],
            "add_only": True,
        },
        "engines": [{"name": "gosmt", "path": "/verif/engine", "serves_properties": sorted(CLAIMED),
                     "kind_free_text": "bounded symbolic executor for Go SSA (go/ssa of x/tools v0.29.0) emitting SMT-LIB2; solvers z3 5.1.0 (z3-new), cvc5 1.0, cvc5 --solve-bv-as-int=sum raced per query"}],
        "checks": checks,
        "not_applicable": sorted(na, key=lambda x: x["property_id"]),
        "notes": "Every check regenerates its encoding from /repo's current working tree. Exit 0 = held for every input/schedule within the bounds stated in the evidence file; 1 = VIOLATION; 2 = INCONCLUSIVE (solver unknown, unsupported construct, failed unwinding assertion, unreachable witness).",
    }
    json.dump(man, open("/verif/MANIFEST.json", "w"), indent=1)
    print("wrote MANIFEST.json with", len(checks), "checks,", len(na), "not_applicable")

if __name__ == "__main__":
    main()
