#!/usr/bin/env python3
"""Generates /verif/MANIFEST.json from the table below (kept next to the registry of harnesses)."""
import json, sys

TECH = ("bounded symbolic execution of the real functions from go/ssa (own executor gosmt), "
        "symbolic inputs%s, obligations discharged by SMT (z3 5.1 / cvc5 1.0 / cvc5 --solve-bv-as-int), "
        "sat models replayed natively (sequential) or rendered access-by-access (concurrent)")

CLAIMED = {
  # id: (category, text, note, design_ref, concurrent?)
}

def claim(pid, text, note, ref, conc=False):
    CLAIMED[pid] = ("model_checking", text, note, ref, conc)

claim("C01",
  "Bounded model checking of the real pop/push (and bufferHeader/bufferSlice helpers) from an arbitrary quiescent free list: one allocation that may stall anywhere against an adversary of K allocate/recycle operations, and T symmetric threads, under a symbolic schedule at single shared-access granularity (R rounds). Oracle: ghost owner per slot, slot-boundary/extent/capacity of every returned buffer, payload+header signature re-read before recycle. unsat = no schedule/inputs within the bounds break it.",
  "sequential consistency; bounds (slots, ops, threads, rounds, retry unrollings with unwinding assertions) as in evidence; sync.Pool.Get modelled as New(); environment-held slots never touched",
  "DESIGN.md 9/C01", True)
claim("C02",
  "Same runs as C01 with the conservation oracle: after every holder returned its buffers the free count equals the initial free set and the chain walk from head visits each free slot exactly once and ends at tail (harness walker and the repo's computeFreeSliceNum); monitor thread: free+held <= capacity at an arbitrary moment; sequential twin: failed allocation consumes nothing, last slot never allocated.",
  "as C01", "DESIGN.md 9/C02", True)
claim("C04",
  "Real queue put/pop/size/isFull/isEmpty: (a) one inductive step from an arbitrary valid ring (64-bit cursors fully symbolic, any fill, arbitrary slot contents) against a FIFO model; (b) P producers x p puts (producer view with its mutex) vs the single consumer (mapping view) and a monitor under a symbolic schedule: exactly-once, intact, per-producer order, non-overlapping order (ghost tickets), bounded outstanding, full-only-when-full, everything delivered.",
  "sequential consistency; capacities from the listed set; cursor overflow at 2^63 excluded; concurrent family uses cursor phase 0..255",
  "DESIGN.md 9/C04", True)
claim("C05",
  "Real put, wakeUpPeer (fast path through writeEventData to a counting eventConn, slow path through sendCh), markWorking/markNotWorking and handlePolling (real getStream on an empty table) under a symbolic schedule: when producers are done, the event loop is idle and no notification is in flight, the queue is empty; at most one notification per accepted element.",
  "sequential consistency; elements carry status=closed so the drain loop body is `continue`; the send loop's write of queued polling events is abstracted as 'in flight'; channel contents are counts",
  "DESIGN.md 9/C05", True)
claim("C15",
  "Stream-pool ring (push/pop): one inductive step from an arbitrary valid ring state (64-bit cursors symbolic, capacity from a listed set) with a symbolic operation sequence against a FIFO model: nothing popped twice, nothing lost, errPoolFull only when full.",
  "ring part only (C15(a)); the pool's interaction with stream/session state is not covered by this check",
  "DESIGN.md 9/C15")

NOT_APPLICABLE = {
}

def main():
    reg = json.load(open("/verif/harness/registry.json"))
    checks = []
    for pid in sorted(CLAIMED):
        if pid not in reg:
            continue
        cat, text, note, ref, conc = CLAIMED[pid]
        checks.append({
            "property_id": pid,
            "quick_cmd": "./check.sh %s quick" % pid,
            "thorough_cmd": "./check.sh %s thorough" % pid,
            "evidence_file": "/verif/evidence/%s.json" % pid,
            "replay_cmd_template": "cat {path}",
            "engine": "gosmt",
            "level_claimed": {"category": cat, "text": text, "design_ref": ref},
            "level_note": note,
            "technique": TECH % (" and a symbolic thread schedule (lazy round-robin sequentialisation)" if conc else ""),
        })
    na = [{"property_id": p, "reason": r} for p, r in sorted(NOT_APPLICABLE.items())]
    allp = ["C%02d" % i for i in range(1, 21)]
    for p in allp:
        if p not in CLAIMED and p not in NOT_APPLICABLE:
            na.append({"property_id": p, "reason": "no check registered yet in this tree (work in progress; see DESIGN.md section 13 for the order of work)"})
    man = {
        "version": 1,
        "setup_cmd": "cd /verif/engine && GOFLAGS=-mod=mod GOPROXY=off GOSUMDB=off GOTOOLCHAIN=local go build -o /verif/bin/gosmt ./cmd/gosmt",
        "hooks": {
            "guard": "verif",
            "enable": "no files in /repo: harnesses, intrinsic declarations and stubs are injected through go/packages Overlay and `go test -overlay` with -tags verif",
            "baseline_off_cmd": "cd /repo && GOFLAGS=-mod=mod go test -json -vet=off -count=1 -timeout 25m ./...",
            "source_commits": [],
            "add_only": True,
        },
        "engines": [{"name": "gosmt", "path": "/verif/engine", "serves_properties": sorted(CLAIMED),
                     "kind_free_text": "bounded symbolic executor for Go SSA (go/ssa of x/tools v0.29.0) emitting SMT-LIB2; solvers z3 5.1.0 (z3-new), cvc5 1.0, cvc5 --solve-bv-as-int=sum raced per query"}],
        "checks": checks,
        "not_applicable": sorted(na, key=lambda x: x["property_id"]),
        "notes": "Every check regenerates its encoding from /repo's current working tree. Exit 0 = held for every input/schedule within the bounds stated in the evidence file; 1 = VIOLATION; 2 = INCONCLUSIVE (solver unknown, unsupported construct, failed unwinding assertion, unreachable witness).",
    }
    json.dump(man, open("/verif/MANIFEST.json", "w"), indent=1)
    print("wrote MANIFEST.json with", len(checks), "checks,", len(na), "not_applicable")

if __name__ == "__main__":
    main()
