#!/bin/bash
# usage: tools/verify_seed.sh <wt> <mdir> <demo-test-regex>
# confirms in the scratch worktree <wt>: (a) suite passes with the patch, (b) demo fails with the patch, (c) demo passes without.
WT="$1"; M="$2"; RX="$3"
cd "$WT" || exit 3
git checkout -q -- . ; rm -f demo_test.go zz_demo*_test.go
git apply "$M/patch.diff" || { echo "RESULT $M patch-does-not-apply"; exit 3; }
isolated-go "$WT" go test -vet=off -count=1 -timeout 25m ./... > "$M/verify_suite.log" 2>&1; a=$?
if [ $a -ne 0 ]; then isolated-go "$WT" go test -vet=off -count=1 -timeout 25m ./... > "$M/verify_suite.log" 2>&1; a=$?; fi
for f in "$M"/*_test.go; do cp "$f" "$WT/zz_$(basename $f)"; done
isolated-go "$WT" go test -vet=off -count=1 -timeout 10m -run "$RX" . > "$M/verify_demo_with.log" 2>&1; b=$?
git checkout -q -- .
isolated-go "$WT" go test -vet=off -count=1 -timeout 10m -run "$RX" . > "$M/verify_demo_without.log" 2>&1; c=$?
rm -f "$WT"/zz_*_test.go
echo "RESULT $M suite_with_patch=$a demo_with_patch=$b demo_without_patch=$c"
