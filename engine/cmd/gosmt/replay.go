package main

import (
	"bytes"
	"encoding/json"
	"fmt"
	"go/ast"
	"go/parser"
	"go/printer"
	"go/token"
	"os"
	"os/exec"
	"path/filepath"
	"strings"

	"verif/engine/sym"
)

// replay turns a solver model into a native run of the harness against the real build (go test
// with the harness, the native intrinsic bodies and a generated test overlaid). It returns
// "confirmed" (the predicted assertion fails / the predicted panic occurs natively), "diverged"
// (the native run does not reproduce: encoder or stub bug, never a finding), or "model-only"
// (concurrent harness: the schedule cannot be forced on the native build by this runner; the
// trace is the model's, rendered access by access in the replay file).
func replay(prop string, r *sym.CaseResult, v *sym.ViolationInfo, path string) string {
	concurrent := len(v.Sched) > 0
	if concurrent && (!v.Aligned || len(v.Steps) == 0) {
		return "model-only"
	}
	for _, n := range r.Notes {
		// the harness declared that this case has no native counterpart (e.g. two parties that stand
		// for two operating-system processes with separate package-level state): the replay file holds
		// the case (shape, inputs, violated obligation); the violation is reported at model level
		if strings.HasPrefix(n, "replay:model-only-id:") {
			// an obligation that only exists in the model (conflicting-access check): the native
			// build has no counterpart to fail
			if strings.HasPrefix(v.ID, strings.TrimPrefix(n, "replay:model-only-id:")) {
				return "model-only"
			}
			continue
		}
		if strings.HasPrefix(n, "replay:model-only") {
			return "model-only"
		}
	}
	hooked := v.HookFile != ""
	work, err := os.MkdirTemp(filepath.Join(*verifDir, ".work"), "replay-")
	if err != nil {
		os.MkdirAll(filepath.Join(*verifDir, ".work"), 0o755)
		work, err = os.MkdirTemp(filepath.Join(*verifDir, ".work"), "replay-")
		if err != nil {
			return "diverged"
		}
	}
	if os.Getenv("VERIF_KEEP") == "" {
		defer os.RemoveAll(work)
	} else {
		fmt.Fprintln(os.Stderr, "replay work dir kept:", work)
	}
	var sb strings.Builder
	sb.WriteString("//go:build verif && verifreplay\n\npackage shmipc\n\nimport \"testing\"\n\nfunc TestVerifReplay(t *testing.T) {\n")
	sb.WriteString("\tvfInputVec = []uint64{")
	for i, in := range v.Inputs {
		if i > 0 {
			sb.WriteString(", ")
		}
		fmt.Fprintf(&sb, "%d", in.Val)
	}
	sb.WriteString("}\n")
	if concurrent {
		sb.WriteString("\tvfSchedule = [][]int{")
		for _, q := range v.Quota {
			sb.WriteString("{")
			for _, n := range q {
				fmt.Fprintf(&sb, "%d,", n)
			}
			sb.WriteString("},")
		}
		sb.WriteString("}\n\tvfFinished = []bool{")
		for _, f := range v.Finished {
			fmt.Fprintf(&sb, "%v,", f)
		}
		sb.WriteString("}\n\tvfStepsOf = [][]vfStep{")
		for _, st := range v.Steps {
			sb.WriteString("{")
			for _, x := range st {
				fmt.Fprintf(&sb, "{%q, %d},", x.File, x.Line)
			}
			sb.WriteString("},\n\t\t")
		}
		sb.WriteString("}\n")
	}
	if hooked {
		fmt.Fprintf(&sb, "\tvfHookFile, vfHookLine, vfHookOcc, vfHookAtomic = %q, %d, %d, %v\n", v.HookFile, v.HookLine, v.HookOcc, v.HookAtomic)
	}
	for _, s := range r.Shape {
		kv := strings.SplitN(s, "=", 2)
		fmt.Fprintf(&sb, "\tvfShapeMap[%q] = %s\n", kv[0], kv[1])
	}
	fmt.Fprintf(&sb, "\t%s()\n}\n", r.Harness)
	testFile := filepath.Join(work, "zz_verif_replay_test.go")
	os.WriteFile(testFile, []byte(sb.String()), 0o644)
	ov := map[string]map[string]string{"Replace": {}}
	hdir := filepath.Join(*verifDir, "harness")
	ents, _ := os.ReadDir(hdir)
	for _, en := range ents {
		if !strings.HasSuffix(en.Name(), ".go") {
			continue
		}
		ov["Replace"][filepath.Join(*repoDir, "zz_verif_"+strings.TrimPrefix(en.Name(), "zz_verif_"))] = filepath.Join(hdir, en.Name())
	}
	ov["Replace"][filepath.Join(*repoDir, "zz_verif_replay_test.go")] = testFile
	// stubbed callees: overlay a copy of the declaring source file in which the real function is
	// renamed and a forwarder with the original name calls the harness stub
	if err := stubOverlay(work, r.Harness, ov["Replace"]); err != nil {
		os.WriteFile(strings.TrimSuffix(path, ".json")+".native.txt", []byte("stub overlay failed: "+err.Error()), 0o644)
		return "diverged"
	}
	if concurrent || hooked {
		// every statement of the repository's sources and of the harnesses becomes a gate of the
		// controlled scheduler
		if err := gateOverlay(work, ov["Replace"]); err != nil {
			os.WriteFile(strings.TrimSuffix(path, ".json")+".native.txt", []byte("gate overlay failed: "+err.Error()), 0o644)
			return "model-only"
		}
	}
	ob, _ := json.Marshal(ov)
	ovFile := filepath.Join(work, "overlay.json")
	os.WriteFile(ovFile, ob, 0o644)
	cmd := exec.Command("go", "test", "-tags", "verif verifreplay", "-vet=off", "-count=1", "-timeout", "120s", "-run", "^TestVerifReplay$", "-overlay", ovFile, ".")
	cmd.Dir = *repoDir
	cmd.Env = append(os.Environ(), "GOFLAGS=-mod=mod", "GOPROXY=off", "GOSUMDB=off", "GOTOOLCHAIN=local")
	out, _ := cmd.CombinedOutput()
	txt := string(out)
	os.WriteFile(strings.TrimSuffix(path, ".json")+".native.txt", out, 0o644)
	if strings.Contains(txt, "VFREPLAY:") {
		if concurrent {
			// the statement-level scheduler could not follow the model's schedule (a switch point
			// that has no gate): the counterexample stays a model-level one
			return "model-only"
		}
		return "diverged"
	}
	if strings.Contains(txt, "VFASSERT-FAIL: "+v.ID) {
		return "confirmed"
	}
	if strings.HasPrefix(v.ID, "noblock:") && (strings.Contains(txt, "test timed out") || strings.Contains(txt, "all goroutines are asleep")) {
		// the model says a call waits for ever: natively the test does not come back
		return "confirmed"
	}
	// the native run stops at the first assertion that fails in program order; the model may have
	// singled out another obligation of the same run
	for _, id := range v.Also {
		if strings.Contains(txt, "VFASSERT-FAIL: "+id) {
			return "confirmed"
		}
	}
	if (strings.HasPrefix(v.ID, "nopanic:") || strings.HasPrefix(v.ID, "rawptr:")) && strings.Contains(txt, "panic:") && !strings.Contains(txt, "VFASSERT-FAIL") {
		return "confirmed"
	}
	return "diverged"
}

// harnessStubs is filled by main from the registry: harness func -> callee full name -> stub name
var harnessStubs = map[string]map[string]string{}

func stubOverlay(work, harness string, replace map[string]string) error {
	stubs := harnessStubs[harness]
	if len(stubs) == 0 {
		return nil
	}
	type target struct{ recv, name, stub string }
	type extTarget struct{ pkg, name, stub string }
	var targets []target
	var exts []extTarget
	for full, stub := range stubs {
		if !strings.Contains(full, "shmipc-go") {
			// function of another package: rewrite the call sites in the repository's files
			i := strings.LastIndexByte(full, '.')
			exts = append(exts, extTarget{pkg: full[:i], name: full[i+1:], stub: stub})
			continue
		}
		// "(*pkg.T).m" or "pkg.f"
		t := target{stub: stub}
		if strings.HasPrefix(full, "(*") {
			i := strings.Index(full, ").")
			typ := full[2:i]
			t.recv = typ[strings.LastIndexByte(typ, '.')+1:]
			t.name = full[i+2:]
		} else {
			t.name = full[strings.LastIndexByte(full, '.')+1:]
		}
		targets = append(targets, t)
	}
	ents, err := os.ReadDir(*repoDir)
	if err != nil {
		return err
	}
	fset := token.NewFileSet()
	for _, en := range ents {
		if !strings.HasSuffix(en.Name(), ".go") || strings.HasSuffix(en.Name(), "_test.go") {
			continue
		}
		fn := filepath.Join(*repoDir, en.Name())
		f, err := parser.ParseFile(fset, fn, nil, parser.ParseComments)
		if err != nil {
			return err
		}
		changed := false
		keepImports := map[string]bool{}
		if len(exts) > 0 {
			alias := map[string]string{} // local name -> import path
			for _, im := range f.Imports {
				path := strings.Trim(im.Path.Value, "\"")
				name := path[strings.LastIndexByte(path, '/')+1:]
				if im.Name != nil {
					name = im.Name.Name
				}
				alias[name] = path
			}
			ast.Inspect(f, func(n ast.Node) bool {
				call, ok := n.(*ast.CallExpr)
				if !ok {
					return true
				}
				sel, ok := call.Fun.(*ast.SelectorExpr)
				if !ok {
					return true
				}
				id, ok := sel.X.(*ast.Ident)
				if !ok {
					return true
				}
				for _, xt := range exts {
					if alias[id.Name] == xt.pkg && sel.Sel.Name == xt.name {
						call.Fun = ast.NewIdent(xt.stub)
						changed = true
						keepImports[id.Name+"."+sel.Sel.Name] = true
					}
				}
				return true
			})
		}
		var extra []ast.Decl
		for _, d := range f.Decls {
			fd, ok := d.(*ast.FuncDecl)
			if !ok {
				continue
			}
			for _, t := range targets {
				if fd.Name.Name != t.name {
					continue
				}
				recv := ""
				if fd.Recv != nil && len(fd.Recv.List) == 1 {
					if se, ok := fd.Recv.List[0].Type.(*ast.StarExpr); ok {
						if id, ok := se.X.(*ast.Ident); ok {
							recv = id.Name
						}
					}
				}
				if recv != t.recv {
					continue
				}
				// forwarder
				var args []ast.Expr
				if fd.Recv != nil {
					if len(fd.Recv.List[0].Names) == 0 {
						fd.Recv.List[0].Names = []*ast.Ident{ast.NewIdent("vfrecv")}
					}
					args = append(args, ast.NewIdent(fd.Recv.List[0].Names[0].Name))
				}
				for i, p := range fd.Type.Params.List {
					if len(p.Names) == 0 {
						p.Names = []*ast.Ident{ast.NewIdent("vfarg" + string(rune('a'+i)))}
					}
					for _, n := range p.Names {
						args = append(args, ast.NewIdent(n.Name))
					}
				}
				call := &ast.CallExpr{Fun: ast.NewIdent(t.stub), Args: args}
				var body *ast.BlockStmt
				if fd.Type.Results != nil && len(fd.Type.Results.List) > 0 {
					body = &ast.BlockStmt{List: []ast.Stmt{&ast.ReturnStmt{Results: []ast.Expr{call}}}}
				} else {
					body = &ast.BlockStmt{List: []ast.Stmt{&ast.ExprStmt{X: call}}}
				}
				fw := &ast.FuncDecl{Recv: fd.Recv, Name: ast.NewIdent(t.name), Type: fd.Type, Body: body}
				extra = append(extra, fw)
				fd.Name = ast.NewIdent(t.name + "__real")
				fd.Doc = nil
				changed = true
			}
		}
		if changed {
			f.Decls = append(f.Decls, extra...)
			var buf bytes.Buffer
			if err := printer.Fprint(&buf, fset, f); err != nil {
				return err
			}
			for k := range keepImports {
				// the import may have no other use left
				fmt.Fprintf(&buf, "\nvar _ = %s\n", k)
			}
			if false {
				return err
			}
			out := filepath.Join(work, "stubbed_"+en.Name())
			if err := os.WriteFile(out, buf.Bytes(), 0o644); err != nil {
				return err
			}
			replace[fn] = out
		}
	}
	return nil
}

// gateOverlay writes instrumented copies of the repository's non-test sources and of the harness
// files: a call vfGate(file, firstLine, lastLine) in front of every statement.
func gateOverlay(work string, replace map[string]string) error {
	type src struct{ virtual, real string }
	var files []src
	ents, err := os.ReadDir(*repoDir)
	if err != nil {
		return err
	}
	for _, en := range ents {
		n := en.Name()
		if !strings.HasSuffix(n, ".go") || strings.HasSuffix(n, "_test.go") || strings.HasPrefix(n, "zz_verif_") {
			continue
		}
		switch n {
		case "buffer_manager.go", "buffer_slice.go", "queue.go", "session.go", "protocol_manager.go", "stream.go", "buffer.go", "event_dispatcher_linux.go", "session_manager.go", "listener.go", "util.go":
			virtual := filepath.Join(*repoDir, n)
			real := virtual
			if r, ok := replace[virtual]; ok {
				real = r
			}
			files = append(files, src{virtual, real})
		}
	}
	for virtual, real := range replace {
		b := filepath.Base(virtual)
		if strings.HasPrefix(b, "zz_verif_h") {
			files = append(files, src{virtual, real})
		}
	}
	fset := token.NewFileSet()
	for _, f := range files {
		af, err := parser.ParseFile(fset, f.real, nil, parser.ParseComments)
		if err != nil {
			return err
		}
		base := filepath.Base(f.virtual)
		line := func(p token.Pos) int { return fset.Position(p).Line }
		gate := func(s ast.Stmt) ast.Stmt {
			lo, hi := line(s.Pos()), line(s.End())
			switch x := s.(type) {
			case *ast.IfStmt:
				hi = line(x.Body.Lbrace)
			case *ast.ForStmt:
				hi = line(x.Body.Lbrace)
			case *ast.RangeStmt:
				hi = line(x.Body.Lbrace)
			case *ast.SwitchStmt:
				hi = line(x.Body.Lbrace)
			case *ast.TypeSwitchStmt:
				hi = line(x.Body.Lbrace)
			case *ast.SelectStmt:
				hi = line(x.Body.Lbrace)
			case *ast.BlockStmt, *ast.LabeledStmt, *ast.DeclStmt, *ast.EmptyStmt, *ast.CaseClause, *ast.CommClause:
				return nil
			}
			return &ast.ExprStmt{X: &ast.CallExpr{Fun: ast.NewIdent("vfGate"), Args: []ast.Expr{
				&ast.BasicLit{Kind: token.STRING, Value: fmt.Sprintf("%q", base)},
				&ast.BasicLit{Kind: token.INT, Value: fmt.Sprint(lo)},
				&ast.BasicLit{Kind: token.INT, Value: fmt.Sprint(hi)}}}}
		}
		instr := func(list []ast.Stmt) []ast.Stmt {
			var out []ast.Stmt
			for _, s := range list {
				if g := gate(s); g != nil {
					out = append(out, g)
				}
				out = append(out, s)
			}
			return out
		}
		// sync/atomic calls get a gate of their own, placed after the evaluation of the arguments and
		// immediately before the operation
		atomicAlias := ""
		for _, im := range af.Imports {
			if strings.Trim(im.Path.Value, "\"") == "sync/atomic" {
				atomicAlias = "atomic"
				if im.Name != nil {
					atomicAlias = im.Name.Name
				}
			}
		}
		ast.Inspect(af, func(n ast.Node) bool {
			switch x := n.(type) {
			case *ast.CallExpr:
				if sel, ok := x.Fun.(*ast.SelectorExpr); ok && atomicAlias != "" {
					if id, ok := sel.X.(*ast.Ident); ok && id.Name == atomicAlias && vfAtomicWrapped[sel.Sel.Name] {
						ln := line(sel.Pos())
						x.Fun = ast.NewIdent("vfAtomic" + sel.Sel.Name)
						x.Args = append([]ast.Expr{
							&ast.BasicLit{Kind: token.STRING, Value: fmt.Sprintf("%q", base)},
							&ast.BasicLit{Kind: token.INT, Value: fmt.Sprint(ln)}}, x.Args...)
					}
				}
			case *ast.BlockStmt:
				x.List = instr(x.List)
			case *ast.CaseClause:
				x.Body = instr(x.Body)
			case *ast.CommClause:
				x.Body = instr(x.Body)
			}
			return true
		})
		var buf bytes.Buffer
		// comments are dropped (positions of inserted nodes are invalid and would scramble them)
		af.Comments = nil
		if err := printer.Fprint(&buf, fset, af); err != nil {
			return err
		}
		// keep the build constraint of harness files
		out := buf.Bytes()
		if atomicAlias != "" {
			out = append(out, []byte("\nvar _ = "+atomicAlias+".LoadUint32\n")...)
		}
		if strings.HasPrefix(base, "zz_verif_h") && !bytes.Contains(out[:min(len(out), 200)], []byte("//go:build")) {
			out = append([]byte("//go:build verif\n\n"), out...)
		}
		dst := filepath.Join(work, "gated_"+base)
		if err := os.WriteFile(dst, out, 0o644); err != nil {
			return err
		}
		replace[f.virtual] = dst
	}
	return nil
}

var vfAtomicWrapped = map[string]bool{
	"LoadUint32": true, "LoadInt32": true, "LoadInt64": true, "LoadUint64": true,
	"StoreUint32": true, "StoreInt32": true, "StoreInt64": true, "StoreUint64": true,
	"AddUint32": true, "AddInt32": true, "AddInt64": true, "AddUint64": true,
	"CompareAndSwapUint32": true, "CompareAndSwapInt32": true, "CompareAndSwapInt64": true, "CompareAndSwapUint64": true,
}
