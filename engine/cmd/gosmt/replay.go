package main

import (
	"encoding/json"
	"fmt"
	"os"
	"os/exec"
	"path/filepath"
	"strings"

	"verif/engine/sym"
)

// replay turns a solver model into a native run of the harness against the real build (go test
// with the harness, the native intrinsic bodies and a generated test overlaid). It returns
// "confirmed" (the predicted assertion fails / the predicted panic occurs natively), "diverged"
// (the native run does not reproduce: encoder or stub bug, never a finding), or "model-only"
// (concurrent harness: the schedule cannot be forced on the native build by this runner; the
// trace is the model's, rendered access by access in the replay file).
func replay(prop string, r *sym.CaseResult, v *sym.ViolationInfo, path string) string {
	if len(v.Sched) > 0 {
		return "model-only"
	}
	work, err := os.MkdirTemp(filepath.Join(*verifDir, ".work"), "replay-")
	if err != nil {
		os.MkdirAll(filepath.Join(*verifDir, ".work"), 0o755)
		work, err = os.MkdirTemp(filepath.Join(*verifDir, ".work"), "replay-")
		if err != nil {
			return "diverged"
		}
	}
	defer os.RemoveAll(work)
	var sb strings.Builder
	sb.WriteString("//go:build verif && verifreplay\n\npackage shmipc\n\nimport \"testing\"\n\nfunc TestVerifReplay(t *testing.T) {\n")
	sb.WriteString("\tvfInputVec = []uint64{")
	for i, in := range v.Inputs {
		if i > 0 {
			sb.WriteString(", ")
		}
		fmt.Fprintf(&sb, "%d", in.Val)
	}
	sb.WriteString("}\n")
	for _, s := range r.Shape {
		kv := strings.SplitN(s, "=", 2)
		fmt.Fprintf(&sb, "\tvfShapeMap[%q] = %s\n", kv[0], kv[1])
	}
	fmt.Fprintf(&sb, "\t%s()\n}\n", r.Harness)
	testFile := filepath.Join(work, "zz_verif_replay_test.go")
	os.WriteFile(testFile, []byte(sb.String()), 0o644)
	ov := map[string]map[string]string{"Replace": {}}
	hdir := filepath.Join(*verifDir, "harness")
	ents, _ := os.ReadDir(hdir)
	for _, en := range ents {
		if !strings.HasSuffix(en.Name(), ".go") {
			continue
		}
		ov["Replace"][filepath.Join(*repoDir, "zz_verif_"+strings.TrimPrefix(en.Name(), "zz_verif_"))] = filepath.Join(hdir, en.Name())
	}
	ov["Replace"][filepath.Join(*repoDir, "zz_verif_replay_test.go")] = testFile
	ob, _ := json.Marshal(ov)
	ovFile := filepath.Join(work, "overlay.json")
	os.WriteFile(ovFile, ob, 0o644)
	cmd := exec.Command("go", "test", "-tags", "verif verifreplay", "-vet=off", "-count=1", "-run", "^TestVerifReplay$", "-overlay", ovFile, ".")
	cmd.Dir = *repoDir
	cmd.Env = append(os.Environ(), "GOFLAGS=-mod=mod", "GOPROXY=off", "GOSUMDB=off", "GOTOOLCHAIN=local")
	out, _ := cmd.CombinedOutput()
	txt := string(out)
	os.WriteFile(strings.TrimSuffix(path, ".json")+".native.txt", out, 0o644)
	if strings.Contains(txt, "VFREPLAY:") {
		return "diverged"
	}
	if strings.Contains(txt, "VFASSERT-FAIL: "+v.ID) {
		return "confirmed"
	}
	if (strings.HasPrefix(v.ID, "nopanic:") || strings.HasPrefix(v.ID, "rawptr:")) && strings.Contains(txt, "panic:") && !strings.Contains(txt, "VFASSERT-FAIL") {
		return "confirmed"
	}
	return "diverged"
}
