package main

import (
	"verif/engine/sym"
)

// replay turns a solver model into a native run of the harness (sequential harnesses) and
// reports "confirmed", "diverged" or "model-only".
func replay(prop string, r *sym.CaseResult, v *sym.ViolationInfo, path string) string {
	return "model-only"
}
