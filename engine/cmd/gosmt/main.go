// gosmt: solver-based checking of shmipc-go. Loads /repo's current tree with the harnesses
// overlaid, symbolically executes the harness functions (package sym) and discharges the
// obligations with SMT solvers. See /verif/DESIGN.md.
package main

import (
	"crypto/sha256"
	"encoding/json"
	"flag"
	"fmt"
	"os"
	"path/filepath"
	"sort"
	"strconv"
	"strings"
	"sync"
	"time"

	"golang.org/x/tools/go/packages"
	"golang.org/x/tools/go/ssa"
	"golang.org/x/tools/go/ssa/ssautil"

	"verif/engine/smt"
	"verif/engine/sym"
)

type TierCfg struct {
	Shapes     map[string][2]int `json:"shapes"`
	Rounds     int               `json:"rounds"`
	Unroll     map[string]int    `json:"unroll"`
	Solvers    []string          `json:"solvers"`
	TimeoutMs  int               `json:"timeout_ms"`
	Prune      int               `json:"prune_ms"`
	MaxMake    int               `json:"max_make"`
	CrossCheck bool              `json:"cross_check"`
	Skip       bool              `json:"skip"`
	GoPolicy   string            `json:"go_policy"`
	SwitchHook string            `json:"switch_hook"`
	CoroRot    int               `json:"coro_rot"`
	ModelOnly  bool              `json:"model_only_replay"`
}

type HarnessCfg struct {
	Func     string            `json:"func"`
	What     string            `json:"what"`
	Quick    *TierCfg          `json:"quick"`
	Thorough *TierCfg          `json:"thorough"`
	Stubs    map[string]string `json:"stubs"`
	Also     []string          `json:"also_props"`
}

type PropCfg struct {
	Level       string       `json:"level"`
	Harnesses   []HarnessCfg `json:"harnesses"`
	Outside     []string     `json:"outside_the_claim"`
	Assumptions []string     `json:"assumptions"`
}

type Known struct {
	Kind     string `json:"kind"` // known | fixed
	Property string `json:"property"`
	ID       string `json:"id"`
	Match    string `json:"match"` // obligation-id prefix that identifies the finding
	Harness  string `json:"harness"`
	What     string `json:"what"`
	Commit   string `json:"commit,omitempty"`
}

var (
	repoDir  = flag.String("repo", "/repo", "repository under test")
	verifDir = flag.String("verif", "/verif", "verification tree")
	prop     = flag.String("prop", "", "property id")
	tier     = flag.String("tier", "quick", "quick|thorough")
	only     = flag.String("harness", "", "run only this harness function")
	workers  = flag.Int("workers", 12, "parallel shape cases")
	verbose  = flag.Bool("v", false, "verbose")
	shapeFix = flag.String("shape", "", "fix shape values: name#k=v,...")
	noEvid   = flag.Bool("no-evidence", false, "do not write the evidence file")
	dumpSMT  = flag.String("dump", "", "dump solver input to this file (single worker)")
)

func main() {
	flag.Parse()
	if env := os.Getenv("VERIF_TIER"); env != "" && !isFlagSet("tier") {
		*tier = env
	}
	seed := 0
	if s := os.Getenv("VERIF_SEED"); s != "" {
		seed, _ = strconv.Atoi(s)
	}
	t0 := time.Now()
	regB, err := os.ReadFile(filepath.Join(*verifDir, "harness", "registry.json"))
	must(err)
	reg := map[string]*PropCfg{}
	must(json.Unmarshal(regB, &reg))
	pc := reg[*prop]
	if pc == nil {
		fmt.Printf("INCONCLUSIVE property=%s reason=no-registry-entry\n", *prop)
		os.Exit(2)
	}
	var known []Known
	if kb, err := os.ReadFile(filepath.Join(*verifDir, "known_findings.json")); err == nil {
		must(json.Unmarshal(kb, &known))
	}

	prog, pkg, srcHash := load()
	loadSec := time.Since(t0).Seconds()

	type job struct {
		h     HarnessCfg
		tc    *TierCfg
		shape map[string]int
	}
	var mu sync.Mutex
	var results []*sym.CaseResult
	var wg sync.WaitGroup
	// work list: a stack (depth first keeps the number of pending shape cases small), unbounded
	var queue []job
	pending := 0
	var pmu sync.Mutex
	qcond := sync.NewCond(&pmu)
	qclosed := false
	done := make(chan struct{})
	addJob := func(j job) {
		pmu.Lock()
		pending++
		queue = append(queue, j)
		pmu.Unlock()
		qcond.Signal()
	}
	getJob := func() (job, bool) {
		pmu.Lock()
		defer pmu.Unlock()
		for len(queue) == 0 && !qclosed {
			qcond.Wait()
		}
		if len(queue) == 0 {
			return job{}, false
		}
		j := queue[len(queue)-1]
		queue = queue[:len(queue)-1]
		return j, true
	}
	finishJob := func() {
		pmu.Lock()
		pending--
		if pending == 0 {
			qclosed = true
			qcond.Broadcast()
			close(done)
		}
		pmu.Unlock()
	}
	fixed := map[string]int{}
	if *shapeFix != "" {
		for _, kv := range strings.Split(*shapeFix, ",") {
			p := strings.SplitN(kv, "=", 2)
			v, _ := strconv.Atoi(p[1])
			fixed[p[0]] = v
		}
	}
	nw := *workers
	if *dumpSMT != "" {
		nw = 1
	}
	for w := 0; w < nw; w++ {
		wg.Add(1)
		go func(w int) {
			defer wg.Done()
			var solvers []*smt.Solver
			cur := ""
			for {
				j, ok := getJob()
				if !ok {
					break
				}
				tc := j.tc
				names := tc.Solvers
				if len(names) == 0 {
					names = []string{"z3-new", "cvc5-int", "cvc5"}
				}
				if strings.Join(names, ",") != cur {
					for _, sv := range solvers {
						sv.Close()
					}
					solvers = nil
					for _, n := range names {
						sv, err := smt.NewSolver(n)
						must(err)
						solvers = append(solvers, sv)
					}
					cur = strings.Join(names, ",")
					if *dumpSMT != "" {
						f, _ := os.Create(*dumpSMT)
						solvers[0].Log = f
					}
				}
				ro := sym.RunOpts{AlsoProps: j.h.Also, Prop: *prop, GoPolicy: tc.GoPolicy, SwitchHook: tc.SwitchHook, CoroRot: tc.CoroRot, Rounds: tc.Rounds, TimeoutMs: tc.TimeoutMs, CrossCheck: tc.CrossCheck}
				if ro.TimeoutMs == 0 {
					ro.TimeoutMs = 120000
				}
				ro.Opts.Unroll = tc.Unroll
				ro.Opts.PruneTimeout = tc.Prune
				ro.Opts.MaxMake = tc.MaxMake
				ro.Opts.Stubs = j.h.Stubs
				for _, sv := range solvers {
					sv.Seconds, sv.Queries = 0, 0
				}
				res, req, err := sym.RunCase(prog, pkg, j.h.Func, j.shape, ro, solvers)
				if err != nil {
					fmt.Fprintln(os.Stderr, "error:", err)
				}
				if req != nil {
					lo, hi := req.Lo, req.Hi
					base := req.Name
					if i := strings.IndexByte(base, '#'); i >= 0 {
						base = base[:i]
					}
					if r, ok := tc.Shapes[base]; ok {
						if r[0] > lo {
							lo = r[0]
						}
						if r[1] < hi {
							hi = r[1]
						}
					}
					if fv, ok := fixed[req.Name]; ok {
						lo, hi = fv, fv
					} else if fv, ok := fixed[base]; ok {
						lo, hi = fv, fv
					}
					for v := lo; v <= hi; v++ {
						ns := map[string]int{}
						for k, x := range j.shape {
							ns[k] = x
						}
						ns[req.Name] = v
						addJob(job{j.h, tc, ns})
					}
					finishJob()
					continue
				}
				if res.Verdict == "pruned" {
					finishJob()
					continue
				}
				mu.Lock()
				results = append(results, res)
				if *verbose || res.Verdict != "pass" {
					fmt.Fprintf(os.Stderr, "[%s %v] %s %s obl=%d/%d cov=%d/%d unw=%d q=%v exec=%.1fs solve=%.1fs nodes=%d ev=%v\n",
						res.Harness, res.Shape, res.Verdict, res.Reason, res.Discharged, res.Obligations, res.CoversSat, res.Covers, res.Unwinds, res.Queries, res.ExecSec, res.SolverSec, res.Nodes, res.Events)
				}
				mu.Unlock()
				finishJob()
			}
			for _, sv := range solvers {
				sv.Close()
			}
		}(w)
	}
	for _, h := range pc.Harnesses {
		harnessStubs[h.Func] = h.Stubs
	}
	nh := 0
	for _, h := range pc.Harnesses {
		if *only != "" && h.Func != *only {
			continue
		}
		tc := h.Quick
		if *tier == "thorough" && h.Thorough != nil {
			tc = h.Thorough
		}
		if tc == nil || tc.Skip {
			continue
		}
		nh++
		addJob(job{h, tc, map[string]int{}})
	}
	if nh == 0 {
		fmt.Printf("INCONCLUSIVE property=%s reason=no-harness-for-tier\n", *prop)
		os.Exit(2)
	}
	<-done
	wg.Wait()

	// ------------------------------------------------------------------ aggregate
	sort.Slice(results, func(i, j int) bool {
		if results[i].Harness != results[j].Harness {
			return results[i].Harness < results[j].Harness
		}
		return strings.Join(results[i].Shape, ",") < strings.Join(results[j].Shape, ",")
	})
	exit := 0
	nviol, nknown, ninc, nreported := 0, 0, 0, 0
	queries := map[string]int{}
	funcs := map[string]int{}
	stubs := map[string]int{}
	notes := map[string]bool{}
	oblIDs := map[string]int{}
	var samples []interface{}
	solverSec, execSec := 0.0, 0.0
	obl, dis, cov, covSat, unw := 0, 0, 0, 0, 0
	nontrivial := 0
	ncasesOK := 0
	folded := 0
	perHarness := map[string]map[string]interface{}{}
	knownPrinted := map[string]bool{}
	knownIDs := map[string]int{}
	var lines []string
	replayDir := filepath.Join(*verifDir, "evidence", "replay")
	for _, r := range results {
		for k, v := range r.Queries {
			queries[k] += v
		}
		for k, v := range r.Funcs {
			funcs[k] = v
		}
		for k, v := range r.Stubs {
			stubs[k] += v
		}
		for _, n := range r.Notes {
			notes[n] = true
		}
		for k, v := range r.ObligationIDs {
			oblIDs[k] += v
		}
		solverSec += r.SolverSec
		execSec += r.ExecSec
		obl += r.Obligations
		dis += r.Discharged
		cov += r.Covers
		covSat += r.CoversSat
		unw += r.Unwinds
		if r.Verdict == "pass" && r.Covers > 0 && r.CoversSat == r.Covers {
			nontrivial += r.CoversSat
			ncasesOK++
		}
		folded += r.Folded
		ph := perHarness[r.Harness]
		if ph == nil {
			ph = map[string]interface{}{"cases": 0, "pass": 0, "events_per_thread_max": []int{}, "rounds": r.Rounds}
			perHarness[r.Harness] = ph
		}
		ph["cases"] = ph["cases"].(int) + 1
		if r.Verdict == "pass" {
			ph["pass"] = ph["pass"].(int) + 1
		}
		if len(r.Events) > 0 {
			ph["events_per_thread_max"] = maxInts(ph["events_per_thread_max"].([]int), r.Events)
		}
		if r.Sample != nil && len(samples) < 6 {
			r.Sample["harness"] = r.Harness
			r.Sample["shape"] = r.Shape
			samples = append(samples, r.Sample)
		}
		switch r.Verdict {
		case "violation":
			for _, v := range r.Violations {
				kf := matchKnown(known, *prop, r.Harness, v.ID)
				if kf != nil {
					nknown++
					knownIDs[v.ID]++
					if !knownPrinted[kf.ID] {
						knownPrinted[kf.ID] = true
						lines = append(lines, fmt.Sprintf("KNOWN-FINDING: property=%s %s %s", *prop, kf.ID, kf.What))
					}
					continue
				}
				nviol++
				if nreported >= 3 || nviol > 10 {
					// further violating cases are counted but not replayed one by one: up to three
					// reported violations, at most ten replay attempts (a native run that depends
					// on goroutine timing may fail to reproduce one case and reproduce the next)
					continue
				}
				os.MkdirAll(replayDir, 0o755)
				path := filepath.Join(replayDir, fmt.Sprintf("%s-%d.json", *prop, nviol))
				rb, _ := json.MarshalIndent(map[string]interface{}{"property": *prop, "harness": r.Harness, "shape": r.Shape,
					"obligation": v.ID, "where": v.Where, "inputs": v.Inputs, "schedule": v.Sched, "trace": v.Trace}, "", " ")
				os.WriteFile(path, rb, 0o644)
				confirmed := replay(*prop, r, v, path)
				if confirmed == "confirmed" || confirmed == "model-only" {
					nreported++
					lines = append(lines, fmt.Sprintf("VIOLATION property=%s replay=%s", *prop, path))
					fmt.Fprintf(os.Stderr, "violation: %s at %s harness=%s shape=%v replay=%s\n", v.ID, v.Where, r.Harness, r.Shape, confirmed)
					exit = 1
				} else {
					lines = append(lines, fmt.Sprintf("INCONCLUSIVE property=%s reason=replay-%s obligation=%s harness=%s", *prop, confirmed, v.ID, r.Harness))
					ninc++
				}
			}
		case "inconclusive":
			ninc++
			lines = append(lines, fmt.Sprintf("INCONCLUSIVE property=%s reason=%q harness=%s shape=%v", *prop, r.Reason, r.Harness, r.Shape))
		}
	}
	if exit == 0 && ninc > 0 {
		exit = 2
	}
	wall := time.Since(t0).Seconds()
	if *verbose {
		for id, n := range knownIDs {
			fmt.Fprintf(os.Stderr, "known-finding obligation %s: %d cases\n", id, n)
		}
	}
	for _, l := range lines {
		fmt.Println(l)
	}
	fmt.Printf("%s tier=%s cases=%d obligations=%d discharged=%d covers=%d/%d unwinding-flags=%d queries=%v violations=%d known=%d inconclusive=%d wall=%.1fs (load %.1fs exec %.1fs solver %.1fs)\n",
		*prop, *tier, len(results), obl, dis, covSat, cov, unw, queries, nviol, nknown, ninc, wall, loadSec, execSec, solverSec)

	if !*noEvid {
		var fl []string
		for f := range funcs {
			if strings.Contains(f, "shmipc-go") && !strings.Contains(f, ".H_") && !strings.Contains(f, ".vf") {
				fl = append(fl, f)
			}
		}
		sort.Strings(fl)
		var fencoded []map[string]interface{}
		for _, f := range fl {
			fencoded = append(fencoded, map[string]interface{}{"func": f, "ssa_instructions": funcs[f]})
		}
		var nl []string
		for n := range notes {
			nl = append(nl, n)
		}
		sort.Strings(nl)
		var sl []string
		for s := range stubs {
			sl = append(sl, s)
		}
		sort.Strings(sl)
		level := pc.Level
		if level == "" {
			level = "model_checking"
		}
		if len(samples) == 0 {
			samples = append(samples, map[string]interface{}{"note": "no satisfiable cover point sampled"})
		}
		tcDesc := map[string]interface{}{}
		for _, h := range pc.Harnesses {
			tc := h.Quick
			if *tier == "thorough" && h.Thorough != nil {
				tc = h.Thorough
			}
			if tc != nil && !tc.Skip {
				tcDesc[h.Func] = map[string]interface{}{"what": h.What, "bounds": tc}
			}
		}
		ev := map[string]interface{}{
			"property_id": *prop, "tier": *tier, "seed": seed, "level": level,
			"wall_s": wall, "violations": nviol,
			"assumptions": append(append([]string{"sequential consistency for all shared accesses", "go/ssa (x/tools v0.29.0) reflects the compiled code", "SMT solvers z3 4.8.12 / cvc5 1.0 are sound"}, pc.Assumptions...), sl...),
			"coverage": map[string]interface{}{
				"evaluations":                     queries["sat"] + queries["unsat"],
				"distinct_nontrivial":             nontrivial,
				"rule":                            "one evaluation = one query with a definite answer over the symbolic encoding of a harness case (all inputs/schedules within the bounds at once; queries whose terms folded to constants are answered by the simplifier and counted as by:constant-folding); a case = one (harness, shape assignment); distinct_nontrivial counts the distinct reachability witnesses (harness, shape, vfCover id) that were satisfiable in cases that passed with all their witnesses reachable",
				"cases_passed_with_all_witnesses": ncasesOK,
				"obligations_decided_by_constant_folding": folded,
				"samples":                 samples,
				"explanation":             "bounded symbolic execution of the real functions from go/ssa; unsat = holds for every input/schedule within the stated bounds",
				"harness_cases":           len(results),
				"obligations":             obl,
				"discharged":              dis,
				"obligation_ids":          oblIDs,
				"witnesses_sat":           covSat,
				"witnesses_expected":      cov,
				"unwinding_flags":         unw,
				"queries_by_verdict":      queries,
				"solver_seconds":          solverSec,
				"symbolic_exec_seconds":   execSec,
				"functions_encoded":       fencoded,
				"source_sha256":           srcHash,
				"harnesses":               tcDesc,
				"per_harness":             perHarness,
				"bounds_notes":            nl,
				"outside_the_claim":       pc.Outside,
				"known_findings_reported": nknown,
				"inconclusive_cases":      ninc,
				"exhaustive":              false,
			},
		}
		eb, _ := json.MarshalIndent(ev, "", " ")
		os.MkdirAll(filepath.Join(*verifDir, "evidence"), 0o755)
		must(os.WriteFile(filepath.Join(*verifDir, "evidence", *prop+".json"), eb, 0o644))
	}
	os.Exit(exit)
}

func maxInts(a, b []int) []int {
	for len(a) < len(b) {
		a = append(a, 0)
	}
	for i := range b {
		if b[i] > a[i] {
			a[i] = b[i]
		}
	}
	return a
}

func matchKnown(known []Known, prop, harness, oblID string) *Known {
	for i := range known {
		k := &known[i]
		if k.Kind != "known" || k.Property != prop {
			continue
		}
		if k.Harness != "" && k.Harness != harness {
			continue
		}
		if k.Match != "" && strings.HasPrefix(oblID, k.Match) {
			return k
		}
	}
	return nil
}

func isFlagSet(name string) bool {
	set := false
	flag.Visit(func(f *flag.Flag) {
		if f.Name == name {
			set = true
		}
	})
	return set
}

func must(err error) {
	if err != nil {
		fmt.Fprintln(os.Stderr, "fatal:", err)
		fmt.Printf("INCONCLUSIVE property=%s reason=%q\n", *prop, err.Error())
		os.Exit(2)
	}
}

// load builds the SSA program for /repo with the harness overlay.
func load() (*ssa.Program, *ssa.Package, map[string]string) {
	overlay := map[string][]byte{}
	hdir := filepath.Join(*verifDir, "harness")
	ents, err := os.ReadDir(hdir)
	must(err)
	for _, en := range ents {
		if !strings.HasSuffix(en.Name(), ".go") || strings.HasSuffix(en.Name(), "_rt.go") {
			continue
		}
		b, err := os.ReadFile(filepath.Join(hdir, en.Name()))
		must(err)
		overlay[filepath.Join(*repoDir, "zz_verif_"+strings.TrimPrefix(en.Name(), "zz_verif_"))] = b
	}
	cfg := &packages.Config{Mode: packages.LoadAllSyntax, Dir: *repoDir, Overlay: overlay,
		BuildFlags: []string{"-tags=verif"},
		Env:        append(os.Environ(), "GOFLAGS=-mod=mod", "GOPROXY=off", "GOSUMDB=off", "GOTOOLCHAIN=local")}
	pkgs, err := packages.Load(cfg, ".")
	must(err)
	if packages.PrintErrors(pkgs) > 0 {
		fmt.Printf("INCONCLUSIVE property=%s reason=load-errors\n", *prop)
		os.Exit(2)
	}
	prog, spkgs := ssautil.AllPackages(pkgs, ssa.InstantiateGenerics)
	prog.Build()
	hashes := map[string]string{}
	for _, f := range pkgs[0].GoFiles {
		if strings.HasPrefix(filepath.Base(f), "zz_verif_") {
			continue
		}
		b, err := os.ReadFile(f)
		if err == nil {
			hashes[filepath.Base(f)] = fmt.Sprintf("%x", sha256.Sum256(b))[:16]
		}
	}
	return prog, spkgs[0], hashes
}
