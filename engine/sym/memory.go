package sym

import (
	"fmt"
	"os"
	"go/types"

	"golang.org/x/tools/go/ssa"

	"verif/engine/smt"
)

// State is one (merged) execution state: a path guard and the heap. Registers live in frames.
type State struct {
	G    smt.Term
	Heap map[*Obj]interface{} // KVal: Value; KBytes: *Bytes; KMap: *MapContent; KChan: *ChanContent
	// thread-mode bookkeeping
	Th *Thread
}

func (s *State) clone() *State {
	h := make(map[*Obj]interface{}, len(s.Heap)+8)
	for k, v := range s.Heap {
		h[k] = v
	}
	return &State{G: s.G, Heap: h, Th: s.Th}
}

func (e *Engine) newObj(kind ObjKind, typ types.Type, n int, name string) *Obj {
	e.nextObj++
	o := &Obj{ID: e.nextObj, Kind: kind, Typ: typ, N: n, Name: name, Thread: e.curThread}
	return o
}

// allocVal allocates a KVal object holding v.
func (e *Engine) allocVal(st *State, typ types.Type, v Value, name string) *Obj {
	o := e.newObj(KVal, typ, 0, name)
	st.Heap[o] = v
	return o
}

func (e *Engine) allocBytes(st *State, n int, zero bool, name string) *Obj {
	o := e.newObj(KBytes, types.Typ[types.Uint8], n, name)
	st.Heap[o] = &Bytes{N: n, Cells: map[int]smt.Term{}, Zero: zero, Tag: fmt.Sprintf("hv!%s%d", name, o.ID)}
	return o
}

// mergeStates folds b into a: a := ite(a.G, a, b) with guard a.G ∨ b.G. Guards are disjoint.
func (e *Engine) mergeStates(a, b *State) *State {
	c := e.C
	if a.G.IsFalse() {
		return b
	}
	if b.G.IsFalse() {
		return a
	}
	out := &State{G: c.Or(a.G, b.G), Heap: make(map[*Obj]interface{}, len(a.Heap)), Th: a.Th}
	g := a.G // under (a.G ∨ b.G): a.G decides
	for o, av := range a.Heap {
		bv, ok := b.Heap[o]
		if !ok {
			out.Heap[o] = av
			continue
		}
		if identical(av, bv) {
			out.Heap[o] = av
			continue
		}
		out.Heap[o] = e.mergeContent(g, o, av, bv)
	}
	for o, bv := range b.Heap {
		if _, ok := a.Heap[o]; !ok {
			out.Heap[o] = bv
		}
	}
	return out
}

func (e *Engine) mergeContent(g smt.Term, o *Obj, a, b interface{}) interface{} {
	c := e.C
	switch o.Kind {
	case KBytes:
		x, y := a.(*Bytes), b.(*Bytes)
		nb := &Bytes{N: x.N, Zero: x.Zero, Tag: x.Tag, Cells: map[int]smt.Term{}}
		for k, v := range x.Cells {
			w := y.get(c, k)
			nb.Cells[k] = c.Ite(g, v, w)
		}
		for k, w := range y.Cells {
			if _, ok := x.Cells[k]; !ok {
				nb.Cells[k] = c.Ite(g, x.get(c, k), w)
			}
		}
		return nb
	case KVal:
		if ia, ok := a.(*rangeIter); ok {
			return e.mergeIter(g, ia, b.(*rangeIter))
		}
		return e.Merge(g, a.(Value), b.(Value))
	case KMap:
		x, y := a.(*MapContent), b.(*MapContent)
		// entries are append-only with presence guards; align by position when keys are identical
		n := len(x.Entries)
		if len(y.Entries) > n {
			n = len(y.Entries)
		}
		out := &MapContent{}
		for i := 0; i < n; i++ {
			var xe, ye *MapEntry
			if i < len(x.Entries) {
				xe = &x.Entries[i]
			}
			if i < len(y.Entries) {
				ye = &y.Entries[i]
			}
			switch {
			case xe != nil && ye != nil && sameValue(xe.K, ye.K):
				out.Entries = append(out.Entries, MapEntry{K: xe.K, V: e.Merge(g, xe.V, ye.V), G: c.Ite(g, xe.G, ye.G)})
			case xe != nil && ye != nil:
				out.Entries = append(out.Entries, MapEntry{K: xe.K, V: xe.V, G: c.And(g, xe.G)})
				out.Entries = append(out.Entries, MapEntry{K: ye.K, V: ye.V, G: c.And(c.Not(g), ye.G)})
			case xe != nil:
				out.Entries = append(out.Entries, MapEntry{K: xe.K, V: xe.V, G: c.And(g, xe.G)})
			default:
				out.Entries = append(out.Entries, MapEntry{K: ye.K, V: ye.V, G: c.And(c.Not(g), ye.G)})
			}
		}
		return out
	case KChan:
		x, y := a.(*ChanContent), b.(*ChanContent)
		nc := &ChanContent{Cap: x.Cap, Closed: c.Ite(g, x.Closed, y.Closed), Count: c.Ite(g, x.Count, y.Count), Refill: x.Refill}
		if y.Refill < nc.Refill {
			nc.Refill = y.Refill
		}
		for i := range x.Slots {
			nc.Slots = append(nc.Slots, e.Merge(g, x.Slots[i], y.Slots[i]))
		}
		return nc
	}
	panic("mergeContent")
}

// ---------------------------------------------------------------------------------------------
// byte-level access

func typeSize(t types.Type) int {
	switch u := t.Underlying().(type) {
	case *types.Basic:
		if w, _, ok := intWidth(u); ok {
			return w / 8
		}
		if isBool(u) {
			return 1
		}
	case *types.Array:
		return int(u.Len()) * typeSize(u.Elem())
	case *types.Struct:
		n := 0
		for i := 0; i < u.NumFields(); i++ {
			n += typeSize(u.Field(i).Type())
		}
		return n
	case *types.Pointer:
		return 8
	}
	return -1
}

// loadBytes reads n bytes little-endian at offset off from a bytes object.
func (e *Engine) loadBytes(st *State, o *Obj, off Sel, n int) smt.Term {
	c := e.C
	b := st.Heap[o].(*Bytes)
	if off.T == nil {
		var t smt.Term
		for k := 0; k < n; k++ {
			cell := b.get(c, off.I+k)
			if t == nil {
				t = cell
			} else {
				t = c.Concat(cell, t)
			}
		}
		return t
	}
	// symbolic offset: ite chain over candidate offsets
	cands := e.candidates(st, o, b, off.T, n)
	var t smt.Term
	for i := len(cands) - 1; i >= 0; i-- {
		v := e.loadBytes(st, o, Sel{I: cands[i]}, n)
		if t == nil {
			t = v
		} else {
			t = c.Ite(c.Eq(off.T, c.BV(uint64(cands[i]), 64)), v, t)
		}
	}
	if t == nil {
		t = c.BV(0, n*8)
	}
	return t
}

// candidates lists the concrete offsets a symbolic offset may take (bounded by region and
// alignment hints). Membership is asserted by the caller through in-region checks.
func (e *Engine) candidates(st *State, o *Obj, b *Bytes, off smt.Term, n int) []int {
	var out []int
	step := 1
	if o.Shared != nil && o.Shared.Align > 1 && n >= o.Shared.Align {
		step = o.Shared.Align
	}
	if a, ok := e.AlignHint[o]; ok && n >= a {
		step = a
	}
	for i := 0; i+n <= b.N; i += step {
		out = append(out, i)
	}
	if len(out) > e.Opts.MaxCandidates {
		panic(e.unsupported(fmt.Sprintf("symbolic offset into %s of %d bytes: %d candidates", o, b.N, len(out))))
	}
	return out
}

func (e *Engine) storeBytes(st *State, g smt.Term, o *Obj, off Sel, n int, val smt.Term) {
	c := e.C
	b := st.Heap[o].(*Bytes).clone()
	st.Heap[o] = b
	if off.T == nil {
		for k := 0; k < n; k++ {
			byteK := c.Extract(val, k*8+7, k*8)
			i := off.I + k
			if g.IsTrue() {
				b.Cells[i] = byteK
			} else {
				b.Cells[i] = c.Ite(g, byteK, b.get(c, i))
			}
		}
		return
	}
	cands := e.candidates(st, o, b, off.T, n)
	// for each cell, for each k, candidate = cell-k
	touched := map[int]bool{}
	for _, cd := range cands {
		for k := 0; k < n; k++ {
			touched[cd+k] = true
		}
	}
	candSet := map[int]bool{}
	for _, cd := range cands {
		candSet[cd] = true
	}
	for i := range touched {
		cur := b.get(c, i)
		for k := 0; k < n; k++ {
			if candSet[i-k] {
				hit := c.And(g, c.Eq(off.T, c.BV(uint64(i-k), 64)))
				cur = c.Ite(hit, c.Extract(val, k*8+7, k*8), cur)
			}
		}
		b.Cells[i] = cur
	}
}

// ---------------------------------------------------------------------------------------------
// value-tree access

func (e *Engine) getPath(v Value, path []Sel, typ types.Type) Value {
	if len(path) == 0 {
		return v
	}
	s := path[0]
	switch x := v.(type) {
	case StructV:
		if s.T != nil {
			panic(e.unsupported("symbolic field selector"))
		}
		return e.getPath(x.F[s.I], path[1:], typ)
	case ArrayV:
		if s.T == nil {
			if s.I < 0 || s.I >= len(x.E) {
				// out of range (checked elsewhere): return zero of elem
				if len(x.E) > 0 {
					return e.getPath(x.E[0], path[1:], typ)
				}
				panic(e.unsupported(fmt.Sprintf("load from empty array at %d", s.I)))
			}
			return e.getPath(x.E[s.I], path[1:], typ)
		}
		var r Value
		for i := len(x.E) - 1; i >= 0; i-- {
			vi := e.getPath(x.E[i], path[1:], typ)
			if r == nil {
				r = vi
			} else {
				r = e.Merge(e.C.Eq(s.T, e.C.BV(uint64(i), 64)), vi, r)
			}
		}
		if r == nil {
			panic(e.unsupported("symbolic index into empty array"))
		}
		return r
	}
	panic(e.unsupported(fmt.Sprintf("getPath through %T", v)))
}

func (e *Engine) setPath(v Value, path []Sel, g smt.Term, nv Value) Value {
	if len(path) == 0 {
		return e.Merge(g, nv, v)
	}
	s := path[0]
	switch x := v.(type) {
	case StructV:
		nf := make([]Value, len(x.F))
		copy(nf, x.F)
		nf[s.I] = e.setPath(x.F[s.I], path[1:], g, nv)
		return StructV{nf}
	case ArrayV:
		ne := make([]Value, len(x.E))
		copy(ne, x.E)
		if s.T == nil {
			if s.I >= 0 && s.I < len(ne) {
				ne[s.I] = e.setPath(x.E[s.I], path[1:], g, nv)
			}
			return ArrayV{ne}
		}
		for i := range ne {
			gi := e.C.And(g, e.C.Eq(s.T, e.C.BV(uint64(i), 64)))
			ne[i] = e.setPath(x.E[i], path[1:], gi, nv)
		}
		return ArrayV{ne}
	}
	panic(e.unsupported(fmt.Sprintf("setPath through %T", v)))
}

// typeAt computes the static type found at path inside an object of type t.
func typeAt(t types.Type, path []Sel) types.Type {
	for _, s := range path {
		switch u := t.Underlying().(type) {
		case *types.Struct:
			t = u.Field(s.I).Type()
		case *types.Array:
			t = u.Elem()
		default:
			return nil
		}
	}
	return t
}

// Load reads a value of type typ through p. Failure conditions (nil) are reported via fail().
func (e *Engine) Load(st *State, p PtrV, typ types.Type, where string) Value {
	c := e.C
	var res Value
	var resG smt.Term
	for _, alt := range p.Alts {
		if alt.G.IsFalse() {
			continue
		}
		if alt.Obj == nil {
			e.fail(st, alt.G, "nopanic:nil-deref", where)
			continue
		}
		e.ensureHeap(st, alt.Obj)
		e.raceRecord(alt, typ, false, where)
		v := e.loadAlt(st, alt, typ, where)
		if res == nil {
			res, resG = v, alt.G
		} else {
			res = e.Merge(alt.G, v, res)
			resG = c.Or(resG, alt.G)
		}
	}
	if res == nil {
		// only nil targets: path is dead after the failure; give a zero value
		return e.zero(typ)
	}
	return res
}

// hookTick: sequential stall hook. Before the access that follows exactly `cut` earlier accesses
// of the hooked region the registered function (the adversary) runs to completion.
func (e *Engine) hookTick(st *State, o *Obj, where string, atomic bool) {
	if e.hookBusy || st.Th != nil || e.hookCnt == nil {
		return
	}
	if o == nil {
		// synchronisation point (atomic operation, lock acquisition, channel operation)
		if !e.hookSync {
			return
		}
	} else if e.hookSync || e.hookObj != o {
		return
	}
	if os.Getenv("VERIF_HOOKTRACE") != "" {
		fmt.Fprintln(os.Stderr, "hook tick", where, "atomic", atomic)
	}
	c := e.C
	cv, ok := st.Heap[e.hookCnt].(Value)
	if !ok {
		return
	}
	cnt := cv.(IntV).T
	zero := c.BV(0, 64)
	fire := c.Eq(cnt, zero)
	dec := c.Ite(c.Sgt(cnt, zero), c.Sub(cnt, c.BV(1, 64)), cnt)
	if fire.IsFalse() {
		st.Heap[e.hookCnt] = Value(IntV{dec})
		e.hookOcc[where]++
		return
	}
	e.hookBusy = true
	defer func() { e.hookBusy = false }()
	e.hookOcc[where]++
	e.HookFires = append(e.HookFires, HookFire{Atomic: atomic, Where: where, Occ: e.hookOcc[where], G: c.And(st.G, fire)})
	minus := c.BV(^uint64(0), 64)
	if fire.IsTrue() {
		st.Heap[e.hookCnt] = Value(IntV{minus})
		e.doCall(nil, st, &ssa.CallCommon{}, e.hookFn, nil, nil, "stall-hook")
		return
	}
	run := &State{G: c.And(st.G, fire), Heap: cloneHeap(st.Heap), Th: st.Th}
	run.Heap[e.hookCnt] = Value(IntV{minus})
	e.doCall(nil, run, &ssa.CallCommon{}, e.hookFn, nil, nil, "stall-hook")
	rest := &State{G: c.And(st.G, c.Not(fire)), Heap: st.Heap, Th: st.Th}
	rest.Heap[e.hookCnt] = Value(IntV{dec})
	m := e.mergeStates(run, rest)
	st.G, st.Heap = m.G, m.Heap
}

func (e *Engine) loadAlt(st *State, alt PtrAlt, typ types.Type, where string) Value {
	c := e.C
	o := alt.Obj
	if !e.inAtomicOp {
		e.hookTick(st, o, where, false)
	}
	if o.Shared != nil && st.Th != nil {
		return e.sharedLoad(st, alt, typ, where)
	}
	switch o.Kind {
	case KBytes:
		off := alt.Path[len(alt.Path)-1]
		n := typeSize(typ)
		if n <= 0 {
			panic(e.unsupported("load of " + typ.String() + " from byte region at " + where))
		}
		e.checkRaw(st, alt.G, o, off, n, where)
		if at, ok := typ.Underlying().(*types.Array); ok && isByte(at.Elem()) {
			el := make([]Value, n)
			for i := range el {
				el[i] = IntV{e.loadBytes(st, o, addSel(c, off, i), 1)}
			}
			return ArrayV{el}
		}
		t := e.loadBytes(st, o, off, n)
		if isBool(typ) {
			return BoolV{c.Ne(t, c.BV(0, 8))}
		}
		return IntV{t}
	case KVal:
		content := st.Heap[o]
		if content == nil {
			panic(e.unsupported(fmt.Sprintf("load from object %s not in heap (%s)", o, where)))
		}
		v := e.getPath(content.(Value), alt.Path, typ)
		return e.reinterpret(v, typ, where)
	}
	panic(e.unsupported("load from object kind"))
}

// reinterpret adapts a stored value to the requested static type (unsafe casts between
// layout-compatible types: *[]byte as *string).
func (e *Engine) reinterpret(v Value, typ types.Type, where string) Value {
	switch x := v.(type) {
	case SliceV:
		if isString(typ) {
			return StringV{P: x.P, Len: x.Len}
		}
	case IntV:
		if w, _, ok := intWidth(typ); ok && w != x.T.W {
			panic(e.unsupported(fmt.Sprintf("load width mismatch %d vs %d at %s", w, x.T.W, where)))
		}
	}
	return v
}

func addSel(c *smt.Ctx, s Sel, k int) Sel {
	if s.T == nil {
		return Sel{I: s.I + k}
	}
	return mkSel(c.Add(s.T, c.BV(uint64(int64(k)), 64)))
}

func addSelT(c *smt.Ctx, s Sel, k smt.Term) Sel {
	return mkSel(c.Add(selTerm(c, s), k))
}

// checkRaw asserts that [off, off+n) lies inside the bytes object.
func (e *Engine) checkRaw(st *State, g smt.Term, o *Obj, off Sel, n int, where string) {
	c := e.C
	if off.T == nil {
		if off.I < 0 || off.I+n > o.N {
			e.fail(st, g, "rawptr:out-of-region", where)
		}
		return
	}
	lim := o.N - n
	if lim < 0 {
		e.fail(st, g, "rawptr:out-of-region", where)
		return
	}
	bad := c.Ugt(off.T, c.BV(uint64(lim), 64))
	e.fail(st, c.And(g, bad), "rawptr:out-of-region", where)
}

func (e *Engine) Store(st *State, p PtrV, v Value, typ types.Type, where string) {
	for _, alt := range p.Alts {
		if alt.G.IsFalse() {
			continue
		}
		if alt.Obj == nil {
			e.fail(st, alt.G, "nopanic:nil-deref", where)
			continue
		}
		e.ensureHeap(st, alt.Obj)
		e.raceRecord(alt, typ, true, where)
		e.storeAlt(st, alt, v, typ, where)
	}
}

func (e *Engine) storeAlt(st *State, alt PtrAlt, v Value, typ types.Type, where string) {
	c := e.C
	o := alt.Obj
	if !e.inAtomicOp {
		e.hookTick(st, o, where, false)
	}
	if o.Shared != nil && st.Th != nil {
		e.sharedStore(st, alt, v, typ, where)
		return
	}
	if st.Th != nil && o.Thread != st.Th.ID && !o.LocalOK() {
		e.noteForeignWrite(st, o, where)
	}
	switch o.Kind {
	case KBytes:
		off := alt.Path[len(alt.Path)-1]
		n := typeSize(typ)
		if n <= 0 {
			panic(e.unsupported("store of " + typ.String() + " into byte region at " + where))
		}
		e.checkRaw(st, alt.G, o, off, n, where)
		var t smt.Term
		switch x := v.(type) {
		case IntV:
			t = x.T
		case BoolV:
			t = c.Ite(x.T, c.BV(1, 8), c.BV(0, 8))
		case ArrayV:
			for i, el := range x.E {
				e.storeBytes(st, alt.G, o, addSel(c, off, i), 1, el.(IntV).T)
			}
			return
		default:
			panic(e.unsupported(fmt.Sprintf("store of %T into byte region at %s", v, where)))
		}
		e.storeBytes(st, alt.G, o, off, n, t)
	case KVal:
		content := st.Heap[o]
		if content == nil {
			panic(e.unsupported(fmt.Sprintf("store to object %s not in heap (%s)", o, where)))
		}
		st.Heap[o] = e.setPath(content.(Value), alt.Path, alt.G, v)
	default:
		panic(e.unsupported("store to object kind"))
	}
}

func (o *Obj) LocalOK() bool { return false }

// identical: cheap sameness test for heap contents.
func identical(a, b interface{}) bool {
	switch x := a.(type) {
	case *Bytes:
		y, ok := b.(*Bytes)
		return ok && x == y
	case *MapContent:
		y, ok := b.(*MapContent)
		return ok && x == y
	case *ChanContent:
		y, ok := b.(*ChanContent)
		return ok && x == y
	case *rangeIter:
		y, ok := b.(*rangeIter)
		return ok && x == y
	}
	return sameValue(a, b)
}
