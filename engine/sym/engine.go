package sym

import (
	"fmt"
	"go/token"
	"go/types"
	"sort"
	"strings"

	"golang.org/x/tools/go/ssa"

	"verif/engine/smt"
)

type Opts struct {
	DefaultUnroll     int            // bound for loops not listed
	Unroll            map[string]int // "funcRelString" or "funcRelString#hdrIndex" -> bound
	MaxDepth          int
	MaxCandidates     int
	AssumeAfterAssert bool
	MaxNodes          int
	MaxMake           int               // upper bound assumed for symbolic make/append lengths (bytes)
	PruneTimeout      int               // ms for feasibility calls (0 = no pruning)
	Stubs             map[string]string // callee full name -> harness function name
	Ignore            map[string]bool   // callees with empty bodies
	Trace             bool
}

type Obligation struct {
	ID     string
	Where  string
	Cond   smt.Term // violation condition (path guard ∧ bad)
	Thread int
	EvIdx  int
	Seq    int
}

type CoverPt struct {
	ID     string
	Cond   smt.Term
	Thread int
	EvIdx  int
}

type UnwindFlag struct {
	Loop   string
	Bound  int
	Cond   smt.Term
	Thread int
	EvIdx  int
}

type Input struct {
	Name                 string
	T                    smt.Term
	W                    int
	Kind                 string
	UnderSymbolicControl bool
}

type Unsupported struct{ Msg string }

func (u *Unsupported) Error() string { return "unsupported: " + u.Msg }

// PruneCase: the harness declared this shape assignment infeasible (not part of the space).
type PruneCase struct{}

// HookFire: the stall hook fired before the Occ-th execution of the access at Where, under G.
type HookFire struct {
	Atomic bool
	Where  string
	Occ    int
	G      smt.Term
}

type ShapeRequest struct {
	Name   string
	Lo, Hi int
}

type Engine struct {
	C      *smt.Ctx
	Prog   *ssa.Program
	Pkg    *ssa.Package
	Opts   Opts
	Fset   *token.FileSet
	Solver *smt.Solver // optional, for pruning

	nextObj   int
	nfresh    int
	curThread int
	depth     int

	globals map[*ssa.Global]*Obj
	fninfo  map[*ssa.Function]*fnInfo

	Obls      []*Obligation
	Covers    []*CoverPt
	Unwinds   []*UnwindFlag
	Inputs    []*Input
	Assumes   int
	Folded    int
	FoldedIDs map[string]int
	Encoded   map[*ssa.Function]int
	StubsUsed map[string]int
	AlignHint map[*Obj]int
	Notes     []string

	Shape    map[string]int
	ShapeLog []string

	// concurrency
	Threads   []*Thread
	Regions   []*SharedRegion
	Ghost     map[string]*Obj
	mainSt    *State
	initDone  bool
	InitState *State

	stack      []string
	PruneCalls int
	PruneHits  int

	globalInit   []*Obj
	inInit       bool
	initTrying   bool
	atomicCells  map[string]bool
	chanFinal    map[*Obj]smt.Term
	globalVals   map[*Obj]interface{}
	strObjs      map[string]*Obj
	Hints        []smt.Term
	divCache     map[string][2]smt.Term
	errT         types.Type
	clockObj     *Obj
	shapeSeq     map[string]int
	writers      map[*Obj]map[int]bool
	Sched        []smt.Term // schedule / memory-consistency constraints of the composition
	Finished     smt.Term
	Rounds       int
	hookObj      *Obj // region whose accesses are counted (stall hook, sequential mode)
	hookCnt      *Obj // counter object (in the heap so that it forks/merges with states)
	hookFn       FuncV
	hookBusy     bool
	hookSync     bool // the hook counts synchronisation operations instead of accesses to one region
	inAtomicOp   bool
	goDeferred   []deferredGo
	InfeasibleOK bool // the harness declared that this shape case may be infeasible (its witnesses unreachable)
	hookOcc      map[string]int
	HookFires    []HookFire
	GoPolicy     string // "" (unsupported) | "skip"
	TickerTicks  int
	TimerBudget  int // go_policy coro: timer firings per scheduler run
	Stats        ComposeStats
	ThreadsDone  []*Thread

	// goroutines as coroutines (coro.go)
	coros        []*coro
	cur          *coro
	frames       []*frameRec
	fireTimer    bool
	mainRetrying bool
	inRunCoros   bool
	lastFired    int
	CoroRot      int // go_policy coro: the round-robin order is rotated by a shape in 0..CoroRot
	rot          int
	rotAsked     bool
	SwitchHook   string // harness function called with the root goroutine index (-1: harness) whenever another party gets to run
	race         *raceState
	inAtomicAcc  bool
	eqSt         *State // state for content comparison of byte-backed strings (map keys)
}

func NewEngine(prog *ssa.Program, pkg *ssa.Package, opts Opts) *Engine {
	e := &Engine{C: smt.NewCtx(), Prog: prog, Pkg: pkg, Opts: opts, Fset: prog.Fset,
		globals: map[*ssa.Global]*Obj{}, fninfo: map[*ssa.Function]*fnInfo{},
		Encoded: map[*ssa.Function]int{}, StubsUsed: map[string]int{}, AlignHint: map[*Obj]int{},
		Shape: map[string]int{}, Ghost: map[string]*Obj{}, curThread: -1, shapeSeq: map[string]int{}, hookOcc: map[string]int{}, FoldedIDs: map[string]int{}, TickerTicks: 2, chanFinal: map[*Obj]smt.Term{}, globalVals: map[*Obj]interface{}{}}
	if e.Opts.DefaultUnroll == 0 {
		e.Opts.DefaultUnroll = 64
	}
	if e.Opts.MaxDepth == 0 {
		e.Opts.MaxDepth = 60
	}
	if e.Opts.MaxNodes == 0 {
		e.Opts.MaxNodes = 4000000
	}
	if e.Opts.MaxCandidates == 0 {
		e.Opts.MaxCandidates = 4200
	}
	if e.Opts.MaxMake == 0 {
		e.Opts.MaxMake = 64
	}
	return e
}

func (e *Engine) fresh() int { e.nfresh++; return e.nfresh }

func (e *Engine) unsupported(msg string) error {
	return &Unsupported{Msg: msg + " [" + strings.Join(e.stack, " > ") + "]"}
}

func (e *Engine) pos(p token.Pos) string {
	if !p.IsValid() {
		return "?"
	}
	ps := e.Fset.Position(p)
	f := ps.Filename
	if i := strings.LastIndexByte(f, '/'); i >= 0 {
		f = f[i+1:]
	}
	return fmt.Sprintf("%s:%d", f, ps.Line)
}

func (e *Engine) evIdx(st *State) (int, int) {
	if st.Th != nil {
		return st.Th.ID, len(st.Th.Events)
	}
	return -1, 0
}

// fail records a violation obligation under g (∧ st.G) and assumes its negation afterwards.
func (e *Engine) fail(st *State, bad smt.Term, id, where string) {
	c := e.C
	cond := c.And(st.G, bad)
	if cond.IsFalse() {
		// decided during symbolic execution: the assertion's negation folded to false
		if !st.G.IsFalse() {
			e.Folded++
			e.FoldedIDs[id]++
		}
		return
	}
	th, ev := e.evIdx(st)
	e.Obls = append(e.Obls, &Obligation{ID: id, Where: where, Cond: cond, Thread: th, EvIdx: ev, Seq: len(e.Obls)})
	// The path guard is NOT strengthened with ¬bad (assumptions are not retroactive and checks are
	// not assumptions): obligations are discharged in program order and the first satisfiable one
	// is the reported violation, so every earlier one is known to hold on all executions.
	if e.Opts.AssumeAfterAssert {
		st.G = c.And(st.G, c.Not(bad))
	}
}

func (e *Engine) assume(st *State, cond smt.Term) {
	e.Assumes++
	st.G = e.C.And(st.G, cond)
}

// ---------------------------------------------------------------------------------------------
// CFG info

type loopInfo struct {
	header *ssa.BasicBlock
	body   map[*ssa.BasicBlock]bool
	name   string
}

type fnInfo struct {
	rpo   map[*ssa.BasicBlock]int
	loops []*loopInfo
	nest  map[*ssa.BasicBlock][]*loopInfo // outermost first
}

func (e *Engine) info(fn *ssa.Function) *fnInfo {
	if fi, ok := e.fninfo[fn]; ok {
		return fi
	}
	fi := &fnInfo{rpo: map[*ssa.BasicBlock]int{}, nest: map[*ssa.BasicBlock][]*loopInfo{}}
	// reverse post-order
	var post []*ssa.BasicBlock
	seen := map[*ssa.BasicBlock]bool{}
	var dfs func(b *ssa.BasicBlock)
	dfs = func(b *ssa.BasicBlock) {
		seen[b] = true
		for _, s := range b.Succs {
			if !seen[s] {
				dfs(s)
			}
		}
		post = append(post, b)
	}
	if len(fn.Blocks) > 0 {
		dfs(fn.Blocks[0])
	}
	for i := range post {
		fi.rpo[post[len(post)-1-i]] = i
	}
	if fn.Recover != nil && !seen[fn.Recover] {
		fi.rpo[fn.Recover] = len(post)
	}
	// natural loops
	byHeader := map[*ssa.BasicBlock]*loopInfo{}
	for _, u := range fn.Blocks {
		if !seen[u] {
			continue
		}
		for _, h := range u.Succs {
			if h.Dominates(u) {
				l := byHeader[h]
				if l == nil {
					l = &loopInfo{header: h, body: map[*ssa.BasicBlock]bool{h: true}, name: fmt.Sprintf("%s#%d", fn.RelString(e.Pkg.Pkg), h.Index)}
					byHeader[h] = l
					fi.loops = append(fi.loops, l)
				}
				// collect body: nodes reaching u without passing h
				work := []*ssa.BasicBlock{u}
				for len(work) > 0 {
					x := work[len(work)-1]
					work = work[:len(work)-1]
					if l.body[x] {
						continue
					}
					l.body[x] = true
					for _, p := range x.Preds {
						work = append(work, p)
					}
				}
			}
		}
	}
	sort.Slice(fi.loops, func(i, j int) bool {
		if len(fi.loops[i].body) != len(fi.loops[j].body) {
			return len(fi.loops[i].body) > len(fi.loops[j].body)
		}
		return fi.loops[i].header.Index < fi.loops[j].header.Index
	})
	for _, b := range fn.Blocks {
		for _, l := range fi.loops {
			if l.body[b] {
				fi.nest[b] = append(fi.nest[b], l)
			}
		}
	}
	e.fninfo[fn] = fi
	return fi
}

func (e *Engine) loopBound(l *loopInfo, fn *ssa.Function) int {
	if b, ok := e.Opts.Unroll[l.name]; ok {
		return b
	}
	if b, ok := e.Opts.Unroll[fn.RelString(e.Pkg.Pkg)]; ok {
		return b
	}
	return e.Opts.DefaultUnroll
}
