package sym

import (
	"fmt"
	"go/constant"
	"go/token"
	"go/types"
	"os"
	"sort"
	"strings"

	"golang.org/x/tools/go/ssa"

	"verif/engine/smt"
)

type deferred struct {
	call *ssa.Defer
	fnv  Value
	args []Value
	recv Value // for invoke-mode
}

type frame struct {
	fn   *ssa.Function
	bind []Value
	info *fnInfo
}

type pend struct {
	key    []int
	b      *ssa.BasicBlock
	iters  []int // aligned with info.nest[b]
	st     *State
	regs   map[ssa.Value]Value
	defers []deferred
}

func keyLess(a, b []int) bool {
	for i := 0; i < len(a) && i < len(b); i++ {
		if a[i] != b[i] {
			return a[i] < b[i]
		}
	}
	return len(a) < len(b)
}

func keyEq(a, b []int) bool {
	if len(a) != len(b) {
		return false
	}
	for i := range a {
		if a[i] != b[i] {
			return false
		}
	}
	return true
}

type retInfo struct {
	st  *State
	val Value
}

// callFunction executes fn on st (mutating it into the merged post-state) and returns its results.
func (e *Engine) callFunction(st *State, fn *ssa.Function, args []Value, bind []Value, site string) Value {
	if fn == nil {
		panic(e.unsupported("call of nil function at " + site))
	}
	full := fn.String()
	if e.inInit && fn.Pkg != e.Pkg && fn.Pkg != nil && fn.Name() == "init" {
		return nil
	}
	if h, ok := e.Opts.Stubs[full]; ok {
		hf := e.Pkg.Func(h)
		if hf == nil {
			panic(e.unsupported("stub function " + h + " not found"))
		}
		e.StubsUsed[full+" -> "+h]++
		return e.callFunction(st, hf, args, nil, site)
	}
	if v, ok := e.intrinsic(st, fn, full, args, site); ok {
		return v
	}
	if e.Opts.Ignore[full] || e.ignoredByPattern(fn, full) {
		e.StubsUsed[full+" -> (ignored)"]++
		return e.zeroResults(fn)
	}
	if len(fn.Blocks) == 0 {
		if e.inInit {
			e.Notes = append(e.Notes, "init: skipped "+full)
			return e.zeroResults(fn)
		}
		panic(e.unsupported("external function without model: " + full + " at " + site))
	}
	if e.inInit && fn.Pkg != e.Pkg && !e.initTrying {
		// package initialisation: library calls are executed when the executor supports them and
		// skipped (zero results, noted) otherwise
		saveG, saveHeap := st.G, cloneHeap(st.Heap)
		saveDepth, saveStack := e.depth, len(e.stack)
		var res Value
		ok := func() (ok bool) {
			defer func() {
				if r := recover(); r != nil {
					if _, isU := r.(*Unsupported); isU {
						ok = false
						return
					}
					if er, isE := r.(error); isE {
						if _, isU := er.(*Unsupported); isU {
							ok = false
							return
						}
					}
					panic(r)
				}
			}()
			e.initTrying = true
			res = e.callFunction(st, fn, args, bind, site)
			return true
		}()
		e.initTrying = false
		if ok {
			return res
		}
		st.G, st.Heap = saveG, saveHeap
		e.depth, e.stack = saveDepth, e.stack[:saveStack]
		e.Notes = append(e.Notes, "init: skipped "+full)
		return e.zeroResults(fn)
	}
	if e.depth > e.Opts.MaxDepth {
		panic(e.unsupported("call depth exceeded at " + full))
	}
	e.depth++
	e.stack = append(e.stack, fn.Name())
	defer func() { e.depth--; e.stack = e.stack[:len(e.stack)-1] }()

	fi := e.info(fn)
	fr := &frame{fn: fn, bind: bind, info: fi}
	e.Encoded[fn] = 0
	for _, b := range fn.Blocks {
		e.Encoded[fn] += len(b.Instrs)
	}

	regs := map[ssa.Value]Value{}
	for i, p := range fn.Params {
		if i < len(args) {
			regs[p] = args[i]
		}
	}
	entry := fn.Blocks[0]
	start := &pend{key: []int{fi.rpo[entry]}, b: entry, st: &State{G: st.G, Heap: st.Heap, Th: st.Th}, regs: regs}
	queue := []*pend{start}
	var rets []retInfo
	if e.GoPolicy == "coro" {
		e.frames = append(e.frames, &frameRec{queue: &queue, rets: &rets})
		nf := len(e.frames)
		defer func() { e.frames = e.frames[:nf-1] }()
	}

	push := func(p *pend) {
		// find equal key
		i := sort.Search(len(queue), func(i int) bool { return !keyLess(queue[i].key, p.key) })
		if i < len(queue) && keyEq(queue[i].key, p.key) {
			q := queue[i]
			e.mergePend(q, p)
			return
		}
		queue = append(queue, nil)
		copy(queue[i+1:], queue[i:])
		queue[i] = p
	}

	for len(queue) > 0 {
		p := queue[0]
		queue = queue[1:]
		if p.st.G.IsFalse() {
			continue
		}
		e.execBlock(fr, p, push, &rets)
	}

	// merge returns
	if len(rets) == 0 {
		st.G = e.C.False
		return e.zeroResults(fn)
	}
	acc := rets[0].st
	val := rets[0].val
	for _, r := range rets[1:] {
		if r.st.G.IsFalse() {
			continue
		}
		if acc.G.IsFalse() {
			acc, val = r.st, r.val
			continue
		}
		val = e.Merge(acc.G, val, r.val)
		acc = e.mergeStates(acc, r.st)
	}
	st.G = acc.G
	st.Heap = acc.Heap
	return val
}

func (e *Engine) zeroResults(fn *ssa.Function) Value {
	res := fn.Signature.Results()
	switch res.Len() {
	case 0:
		return nil
	case 1:
		return e.zero(res.At(0).Type())
	}
	tv := make(TupleV, res.Len())
	for i := range tv {
		tv[i] = e.zero(res.At(i).Type())
	}
	return tv
}

func (e *Engine) mergePend(q, p *pend) {
	// q := ite(q.G, q, p)
	g := q.st.G
	if g.IsFalse() {
		*q = *p
		return
	}
	if p.st.G.IsFalse() {
		return
	}
	nregs := make(map[ssa.Value]Value, len(q.regs))
	for k, v := range q.regs {
		if w, ok := p.regs[k]; ok {
			if sameValue(v, w) {
				nregs[k] = v
			} else {
				nregs[k] = e.mergeRegs(g, v, w)
			}
		} else {
			nregs[k] = v
		}
	}
	for k, w := range p.regs {
		if _, ok := q.regs[k]; !ok {
			nregs[k] = w
		}
	}
	if len(q.defers) != len(p.defers) {
		panic(e.unsupported("merge of states with different defer stacks"))
	}
	nd := make([]deferred, len(q.defers))
	for i := range nd {
		a, b := q.defers[i], p.defers[i]
		if a.call != b.call {
			panic(e.unsupported("merge of states with different defer stacks"))
		}
		nd[i] = deferred{call: a.call, fnv: e.mergeRegs(g, a.fnv, b.fnv), recv: e.mergeRegs(g, a.recv, b.recv)}
		for k := range a.args {
			nd[i].args = append(nd[i].args, e.mergeRegs(g, a.args[k], b.args[k]))
		}
	}
	q.st = e.mergeStates(q.st, p.st)
	q.regs = nregs
	q.defers = nd
}

func (e *Engine) mergeRegs(g smt.Term, a, b Value) Value {
	if a == nil && b == nil {
		return nil
	}
	return e.Merge(g, a, b)
}

func (e *Engine) edge(fr *frame, p *pend, from, to *ssa.BasicBlock, st *State, regs map[ssa.Value]Value, push func(*pend)) {
	if st.G.IsFalse() {
		return
	}
	fi := fr.info
	fromNest := fi.nest[from]
	toNest := fi.nest[to]
	iters := make([]int, len(toNest))
	for i, l := range toNest {
		// find in fromNest
		for j, fl := range fromNest {
			if fl == l {
				iters[i] = p.iters[j]
			}
		}
		if l.header == to && l.body[from] {
			iters[i]++
			// deeper loops restart
			for k := i + 1; k < len(iters); k++ {
				iters[k] = 0
			}
			bound := e.loopBound(l, fr.fn)
			if iters[i] > bound {
				th, ev := e.evIdx(st)
				e.Unwinds = append(e.Unwinds, &UnwindFlag{Loop: l.name, Bound: bound, Cond: st.G, Thread: th, EvIdx: ev})
				return
			}
			if e.Opts.PruneTimeout > 0 && !st.G.IsConst() && iters[i] >= 1 {
				if !e.feasible(st.G) {
					return
				}
			}
		}
	}
	key := make([]int, 0, 2*len(toNest)+1)
	for i, l := range toNest {
		key = append(key, fi.rpo[l.header], iters[i])
	}
	key = append(key, fi.rpo[to])
	// evaluate phis of `to` w.r.t. edge from
	nregs := regs
	predIdx := -1
	for i, pr := range to.Preds {
		if pr == from {
			predIdx = i
			break
		}
	}
	var phiVals []Value
	var phis []*ssa.Phi
	for _, ins := range to.Instrs {
		ph, ok := ins.(*ssa.Phi)
		if !ok {
			break
		}
		phis = append(phis, ph)
		phiVals = append(phiVals, e.operand(fr, regs, ph.Edges[predIdx]))
	}
	if len(phis) > 0 {
		nregs = make(map[ssa.Value]Value, len(regs)+len(phis))
		for k, v := range regs {
			nregs[k] = v
		}
		for i, ph := range phis {
			nregs[ph] = phiVals[i]
		}
	}
	push(&pend{key: key, b: to, iters: iters, st: st, regs: nregs, defers: p.defers})
}

func (e *Engine) feasible(g smt.Term) bool {
	if e.Solver == nil {
		return true
	}
	e.PruneCalls++
	r, _, _ := e.Solver.Check([]smt.Term{g}, nil, e.Opts.PruneTimeout)
	if r == smt.Unsat {
		e.PruneHits++
		return false
	}
	return true
}

func copyRegs(m map[ssa.Value]Value) map[ssa.Value]Value {
	n := make(map[ssa.Value]Value, len(m)+8)
	for k, v := range m {
		n[k] = v
	}
	return n
}

func (e *Engine) execBlock(fr *frame, p *pend, push func(*pend), rets *[]retInfo) {
	st := p.st
	regs := p.regs
	// registers map is shared with siblings: copy on first write
	copied := false
	set := func(v ssa.Value, val Value) {
		if !copied {
			regs = copyRegs(regs)
			copied = true
		}
		regs[v] = val
	}
	c := e.C
	if os.Getenv("VERIF_TRACE") != "" {
		fmt.Fprintf(os.Stderr, "TRACE %s block %d iters %v nodes=%d heap=%d\n", fr.fn.Name(), p.b.Index, p.iters, e.C.NumNodes(), len(p.st.Heap))
	}
	if e.C.NumNodes() > e.Opts.MaxNodes {
		panic(e.unsupported(fmt.Sprintf("term budget exceeded (%d nodes) in %s block %d iters %v: a loop or path set is too large for the stated bounds", e.C.NumNodes(), fr.fn.Name(), p.b.Index, p.iters)))
	}
	for _, ins := range p.b.Instrs {
		if st.G.IsFalse() {
			return
		}
		where := e.pos(ins.Pos())
		if where == "?" {
			where = e.pos(fr.fn.Pos()) + "(" + fr.fn.Name() + ")"
		}
		switch x := ins.(type) {
		case *ssa.Phi:
			// already evaluated on the edge
		case *ssa.Jump:
			e.edge(fr, p, p.b, p.b.Succs[0], st, regs, push)
			return
		case *ssa.If:
			cond := e.operand(fr, regs, x.Cond).(BoolV).T
			if cond.IsTrue() {
				e.edge(fr, p, p.b, p.b.Succs[0], st, regs, push)
			} else if cond.IsFalse() {
				e.edge(fr, p, p.b, p.b.Succs[1], st, regs, push)
			} else {
				st1 := &State{G: c.And(st.G, cond), Heap: st.Heap, Th: st.Th}
				st2 := &State{G: c.And(st.G, c.Not(cond)), Heap: st.Heap, Th: st.Th}
				// heaps are persistent at object granularity but the map itself is mutable: clone
				st1.Heap = cloneHeap(st.Heap)
				st2.Heap = st.Heap
				e.edge(fr, p, p.b, p.b.Succs[0], st1, regs, push)
				e.edge(fr, p, p.b, p.b.Succs[1], st2, regs, push)
			}
			return
		case *ssa.Return:
			var val Value
			switch len(x.Results) {
			case 0:
			case 1:
				val = e.operand(fr, regs, x.Results[0])
			default:
				tv := make(TupleV, len(x.Results))
				for i, r := range x.Results {
					tv[i] = e.operand(fr, regs, r)
				}
				val = tv
			}
			*rets = append(*rets, retInfo{st: st, val: val})
			return
		case *ssa.Panic:
			e.fail(st, c.True, "nopanic:explicit-panic", where)
			return
		case *ssa.RunDefers:
			for i := len(p.defers) - 1; i >= 0; i-- {
				d := p.defers[i]
				e.doCall(fr, st, &d.call.Call, d.fnv, d.recv, d.args, where)
				if st.G.IsFalse() {
					return
				}
			}
			p.defers = nil
		case *ssa.Defer:
			fnv, recv, args := e.evalCallOperands(fr, regs, &x.Call)
			nd := make([]deferred, len(p.defers), len(p.defers)+1)
			copy(nd, p.defers)
			p.defers = append(nd, deferred{call: x, fnv: fnv, recv: recv, args: args})
		case *ssa.Go:
			fnv, recv, args := e.evalCallOperands(fr, regs, &x.Call)
			e.spawnGo(st, &x.Call, fnv, recv, args, where)
		case *ssa.Store:
			addr := e.operand(fr, regs, x.Addr).(PtrV)
			val := e.operand(fr, regs, x.Val)
			e.Store(st, addr, val, x.Val.Type(), where)
		case *ssa.MapUpdate:
			e.mapUpdate(st, e.operand(fr, regs, x.Map).(PtrV), e.operand(fr, regs, x.Key), e.operand(fr, regs, x.Value), where)
		case *ssa.Send:
			e.chanSend(st, e.operand(fr, regs, x.Chan).(PtrV), e.operand(fr, regs, x.X), where)
		case *ssa.DebugRef:
		case ssa.Value:
			v := e.execValue(fr, st, regs, x, where)
			set(x, v)
		default:
			panic(e.unsupported(fmt.Sprintf("instruction %T at %s", ins, where)))
		}
	}
}

func cloneHeap(h map[*Obj]interface{}) map[*Obj]interface{} {
	n := make(map[*Obj]interface{}, len(h)+8)
	for k, v := range h {
		n[k] = v
	}
	return n
}

// operand evaluates an SSA value.
func (e *Engine) operand(fr *frame, regs map[ssa.Value]Value, v ssa.Value) Value {
	switch x := v.(type) {
	case *ssa.Const:
		return e.constant(x)
	case *ssa.Global:
		return mkPtr(e.C, e.global(x))
	case *ssa.Function:
		return FuncV{Alts: []FuncAlt{{G: e.C.True, Fn: x}}}
	case *ssa.FreeVar:
		for i, fv := range fr.fn.FreeVars {
			if fv == x {
				return fr.bind[i]
			}
		}
		panic("free var not found")
	case *ssa.Builtin:
		return x
	}
	r, ok := regs[v]
	if !ok {
		panic(e.unsupported(fmt.Sprintf("use of undefined register %s (%T) in %s", v.Name(), v, fr.fn.Name())))
	}
	return r
}

func (e *Engine) constant(k *ssa.Const) Value {
	c := e.C
	t := k.Type()
	if k.Value == nil {
		return e.zero(t)
	}
	if w, _, ok := intWidth(t); ok {
		if k.Value.Kind() == constant.Int {
			if i, exact := constant.Int64Val(k.Value); exact {
				return IntV{c.BV(uint64(i), w)}
			}
			u, _ := constant.Uint64Val(k.Value)
			return IntV{c.BV(u, w)}
		}
		if k.Value.Kind() == constant.Float {
			f, _ := constant.Float64Val(k.Value)
			return IntV{c.BV(uint64(int64(f)), w)}
		}
	}
	if isBool(t) {
		return BoolV{c.Bool(constant.BoolVal(k.Value))}
	}
	if isString(t) {
		s := constant.StringVal(k.Value)
		return StringV{S: &s}
	}
	if b, ok := t.Underlying().(*types.Basic); ok && (b.Info()&types.IsFloat) != 0 {
		return OpaqueV{Tag: "float"}
	}
	panic(e.unsupported("constant of type " + t.String()))
}

func (e *Engine) global(g *ssa.Global) *Obj {
	if o, ok := e.globals[g]; ok {
		return o
	}
	et := g.Type().(*types.Pointer).Elem()
	o := e.newObj(KVal, et, 0, "g."+g.Name())
	o.Thread = -1
	e.globals[g] = o
	e.globalInit = append(e.globalInit, o)
	return o
}

// ensureGlobals makes sure lazily created globals exist in st's heap.
func (e *Engine) ensureHeap(st *State, o *Obj) {
	if _, ok := st.Heap[o]; !ok {
		if v, ok2 := e.globalVals[o]; ok2 {
			st.Heap[o] = v
		} else if o.Kind == KVal {
			st.Heap[o] = e.zero(o.Typ)
		}
	}
}

func (e *Engine) evalCallOperands(fr *frame, regs map[ssa.Value]Value, cc *ssa.CallCommon) (fnv Value, recv Value, args []Value) {
	if cc.IsInvoke() {
		recv = e.operand(fr, regs, cc.Value)
	} else {
		fnv = e.operand(fr, regs, cc.Value)
	}
	for _, a := range cc.Args {
		args = append(args, e.operand(fr, regs, a))
	}
	return
}

// doCall performs a call described by cc with already evaluated operands.
func (e *Engine) doCall(fr *frame, st *State, cc *ssa.CallCommon, fnv Value, recv Value, args []Value, where string) Value {
	c := e.C
	if cc.IsInvoke() {
		iv := recv.(IfaceV)
		var res Value
		var resSt *State
		base := &State{G: st.G, Heap: st.Heap, Th: st.Th}
		for _, alt := range iv.Alts {
			if alt.G.IsFalse() {
				continue
			}
			if alt.T == nil {
				e.fail(st, alt.G, "nopanic:nil-interface-call", where)
				base.G = st.G
				continue
			}
			ms := e.Prog.MethodSets.MethodSet(alt.T)
			sel := ms.Lookup(cc.Method.Pkg(), cc.Method.Name())
			if sel == nil {
				panic(e.unsupported("method " + cc.Method.Name() + " not found on " + alt.T.String()))
			}
			m := e.Prog.MethodValue(sel)
			if m == nil {
				panic(e.unsupported("abstract method " + cc.Method.Name()))
			}
			sub := &State{G: c.And(base.G, alt.G), Heap: base.Heap, Th: st.Th}
			if len(iv.Alts) > 1 {
				sub.Heap = cloneHeap(base.Heap)
			}
			r := e.callFunction(sub, m, append([]Value{alt.V}, args...), nil, where)
			if resSt == nil {
				res, resSt = r, sub
			} else {
				if !sub.G.IsFalse() {
					if resSt.G.IsFalse() {
						res, resSt = r, sub
					} else {
						res = e.mergeRegs(resSt.G, res, r)
						resSt = e.mergeStates(resSt, sub)
					}
				}
			}
		}
		if resSt == nil {
			st.G = c.False
			return nil
		}
		st.G, st.Heap = resSt.G, resSt.Heap
		return res
	}
	if b, ok := fnv.(*ssa.Builtin); ok {
		return e.builtin(st, b, cc, args, where)
	}
	fv := fnv.(FuncV)
	if len(fv.Alts) == 1 {
		a := fv.Alts[0]
		if a.Fn == nil {
			e.fail(st, c.True, "nopanic:nil-func-call", where)
			return nil
		}
		return e.callFunction(st, a.Fn, args, a.Bind, where)
	}
	var res Value
	var resSt *State
	base := &State{G: st.G, Heap: st.Heap, Th: st.Th}
	for _, a := range fv.Alts {
		if a.G.IsFalse() {
			continue
		}
		if a.Fn == nil {
			e.fail(st, a.G, "nopanic:nil-func-call", where)
			base.G = st.G
			continue
		}
		sub := &State{G: c.And(base.G, a.G), Heap: cloneHeap(base.Heap), Th: st.Th}
		r := e.callFunction(sub, a.Fn, args, a.Bind, where)
		if resSt == nil || resSt.G.IsFalse() {
			res, resSt = r, sub
		} else if !sub.G.IsFalse() {
			res = e.mergeRegs(resSt.G, res, r)
			resSt = e.mergeStates(resSt, sub)
		}
	}
	if resSt == nil {
		st.G = c.False
		return nil
	}
	st.G, st.Heap = resSt.G, resSt.Heap
	return res
}

func (e *Engine) execValue(fr *frame, st *State, regs map[ssa.Value]Value, v ssa.Value, where string) Value {
	c := e.C
	op := func(x ssa.Value) Value { return e.operand(fr, regs, x) }
	switch x := v.(type) {
	case *ssa.Alloc:
		et := x.Type().(*types.Pointer).Elem()
		name := x.Comment
		if name == "" {
			name = "alloc"
		}
		if at, ok := et.Underlying().(*types.Array); ok && isByte(at.Elem()) {
			o := e.allocBytes(st, int(at.Len()), true, name)
			return mkPtr(c, o, Sel{I: 0})
		}
		o := e.allocVal(st, et, e.zero(et), name)
		return mkPtr(c, o)
	case *ssa.BinOp:
		return e.binop(st, x.Op, op(x.X), op(x.Y), x.X.Type(), x.Y.Type(), where)
	case *ssa.UnOp:
		return e.unop(st, x, op(x.X), where)
	case *ssa.Call:
		fnv, recv, args := e.evalCallOperands(fr, regs, &x.Call)
		return e.doCall(fr, st, &x.Call, fnv, recv, args, where)
	case *ssa.ChangeType:
		return op(x.X)
	case *ssa.Convert:
		return e.convert(st, op(x.X), x.X.Type(), x.Type(), where)
	case *ssa.ChangeInterface:
		return op(x.X)
	case *ssa.MakeInterface:
		return IfaceV{Alts: []IfaceAlt{{G: c.True, T: x.X.Type(), V: op(x.X)}}}
	case *ssa.MakeClosure:
		fn := x.Fn.(*ssa.Function)
		var bind []Value
		for _, b := range x.Bindings {
			bind = append(bind, op(b))
		}
		return FuncV{Alts: []FuncAlt{{G: c.True, Fn: fn, Bind: bind}}}
	case *ssa.Extract:
		return op(x.Tuple).(TupleV)[x.Index]
	case *ssa.Field:
		return op(x.X).(StructV).F[x.Field]
	case *ssa.FieldAddr:
		p := op(x.X).(PtrV)
		return e.fieldAddr(st, p, x.Field, where)
	case *ssa.Index:
		return e.indexValue(st, op(x.X), op(x.Index), x.X.Type(), where)
	case *ssa.IndexAddr:
		return e.indexAddr(st, op(x.X), op(x.Index).(IntV).T, x.X.Type(), x.Index.Type(), where)
	case *ssa.Slice:
		var lo, hi, mx Value
		if x.Low != nil {
			lo = op(x.Low)
		}
		if x.High != nil {
			hi = op(x.High)
		}
		if x.Max != nil {
			mx = op(x.Max)
		}
		return e.sliceOp(st, op(x.X), x.X.Type(), lo, hi, mx, x.Low, x.High, where)
	case *ssa.MakeSlice:
		return e.makeSlice(st, x.Type(), op(x.Len).(IntV).T, op(x.Cap).(IntV).T, x.Len.Type(), where, true)
	case *ssa.MakeMap:
		o := e.newObj(KMap, x.Type(), 0, "map")
		st.Heap[o] = &MapContent{}
		return mkPtr(c, o)
	case *ssa.MakeChan:
		sz := op(x.Size).(IntV).T
		if !sz.IsConst() {
			panic(e.unsupported("make(chan) with symbolic size"))
		}
		o := e.newObj(KChan, x.Type(), int(sz.Val), "chan")
		cc := &ChanContent{Cap: int(sz.Val), Closed: c.False, Count: c.BV(0, 32)}
		et := x.Type().Underlying().(*types.Chan).Elem()
		for i := 0; i < cc.Cap; i++ {
			cc.Slots = append(cc.Slots, e.zero(et))
		}
		st.Heap[o] = cc
		return mkPtr(c, o)
	case *ssa.Lookup:
		return e.lookup(st, x, op(x.X), op(x.Index), where)
	case *ssa.TypeAssert:
		return e.typeAssert(st, x, op(x.X).(IfaceV), where)
	case *ssa.Range:
		return e.rangeInit(st, x, op(x.X), where)
	case *ssa.Next:
		return e.rangeNext(st, x, op(x.Iter), where)
	case *ssa.Select:
		return e.selectOp(fr, st, regs, x, where)
	case *ssa.SliceToArrayPointer:
		return op(x.X).(SliceV).P
	}
	panic(e.unsupported(fmt.Sprintf("value instruction %T at %s", v, where)))
}

func (e *Engine) fieldAddr(st *State, p PtrV, field int, where string) PtrV {
	out := PtrV{}
	for _, a := range p.Alts {
		if a.Obj == nil {
			e.fail(st, a.G, "nopanic:nil-deref", where)
			continue
		}
		np := make([]Sel, len(a.Path)+1)
		copy(np, a.Path)
		np[len(a.Path)] = Sel{I: field}
		out.Alts = append(out.Alts, PtrAlt{G: a.G, Obj: a.Obj, Path: np})
	}
	if len(out.Alts) == 0 {
		return nilPtr(e.C)
	}
	return out
}

func (e *Engine) idx64(t smt.Term, typ types.Type) smt.Term {
	_, signed, _ := intWidth(typ)
	return e.C.Resize(t, 64, signed)
}

func (e *Engine) indexAddr(st *State, base Value, idx smt.Term, baseT, idxT types.Type, where string) PtrV {
	c := e.C
	i64 := e.idx64(idx, idxT)
	switch b := base.(type) {
	case SliceV:
		// bounds check: 0 <= i < len (unsigned compare covers negative)
		e.fail(st, c.Uge(i64, b.Len), "nopanic:index-out-of-range", where)
		out := PtrV{}
		for _, a := range b.P.Alts {
			if a.Obj == nil {
				continue // nil slice has len 0, already failed
			}
			np := append([]Sel{}, a.Path...)
			np[len(np)-1] = addSelT(c, np[len(np)-1], i64)
			out.Alts = append(out.Alts, PtrAlt{G: a.G, Obj: a.Obj, Path: np})
		}
		if len(out.Alts) == 0 {
			return nilPtr(c)
		}
		return out
	case PtrV:
		// pointer to array
		at := baseT.Underlying().(*types.Pointer).Elem().Underlying().(*types.Array)
		e.fail(st, c.Uge(i64, c.BV(uint64(at.Len()), 64)), "nopanic:index-out-of-range", where)
		out := PtrV{}
		for _, a := range b.Alts {
			if a.Obj == nil {
				e.fail(st, a.G, "nopanic:nil-deref", where)
				continue
			}
			var np []Sel
			if a.Obj.Kind == KBytes {
				np = append([]Sel{}, a.Path...)
				np[len(np)-1] = addSelT(c, np[len(np)-1], i64)
			} else {
				np = append(append([]Sel{}, a.Path...), mkSel(i64))
			}
			out.Alts = append(out.Alts, PtrAlt{G: a.G, Obj: a.Obj, Path: np})
		}
		if len(out.Alts) == 0 {
			return nilPtr(c)
		}
		return out
	}
	panic(e.unsupported(fmt.Sprintf("IndexAddr on %T", base)))
}

func (e *Engine) indexValue(st *State, base Value, idx Value, baseT types.Type, where string) Value {
	c := e.C
	i64 := c.Resize(idx.(IntV).T, 64, true)
	switch b := base.(type) {
	case ArrayV:
		e.fail(st, c.Uge(i64, c.BV(uint64(len(b.E)), 64)), "nopanic:index-out-of-range", where)
		if i64.IsConst() {
			return b.E[int(i64.Val)]
		}
		var r Value
		for i := len(b.E) - 1; i >= 0; i-- {
			if r == nil {
				r = b.E[i]
			} else {
				r = e.Merge(c.Eq(i64, c.BV(uint64(i), 64)), b.E[i], r)
			}
		}
		return r
	case StringV:
		sv := e.stringView(b)
		e.fail(st, c.Uge(i64, sv.Len), "nopanic:index-out-of-range", where)
		p := e.indexAddrRaw(sv.P, i64)
		return e.Load(st, p, types.Typ[types.Uint8], where)
	}
	panic(e.unsupported(fmt.Sprintf("Index on %T", base)))
}

func (e *Engine) indexAddrRaw(p PtrV, i64 smt.Term) PtrV {
	out := PtrV{}
	for _, a := range p.Alts {
		if a.Obj == nil {
			out.Alts = append(out.Alts, a)
			continue
		}
		np := append([]Sel{}, a.Path...)
		np[len(np)-1] = addSelT(e.C, np[len(np)-1], i64)
		out.Alts = append(out.Alts, PtrAlt{G: a.G, Obj: a.Obj, Path: np})
	}
	return out
}

func (e *Engine) sliceOp(st *State, base Value, baseT types.Type, lo, hi, mx Value, loV, hiV ssa.Value, where string) Value {
	c := e.C
	toT := func(v Value, sv ssa.Value) smt.Term {
		return e.idx64(v.(IntV).T, sv.Type())
	}
	var p PtrV
	var ln, cp smt.Term
	isStr := false
	switch b := base.(type) {
	case SliceV:
		p, ln, cp = b.P, b.Len, b.Cap
	case StringV:
		sv := e.stringView(b)
		p, ln, cp = sv.P, sv.Len, sv.Len
		isStr = true
	case PtrV:
		at := baseT.Underlying().(*types.Pointer).Elem().Underlying().(*types.Array)
		n := c.BV(uint64(at.Len()), 64)
		out := PtrV{}
		for _, a := range b.Alts {
			if a.Obj == nil {
				e.fail(st, a.G, "nopanic:nil-deref", where)
				continue
			}
			if a.Obj.Kind == KBytes {
				out.Alts = append(out.Alts, a)
			} else {
				out.Alts = append(out.Alts, PtrAlt{G: a.G, Obj: a.Obj, Path: append(append([]Sel{}, a.Path...), Sel{I: 0})})
			}
		}
		p, ln, cp = out, n, n
	default:
		panic(e.unsupported(fmt.Sprintf("Slice on %T", base)))
	}
	l := c.BV(0, 64)
	if lo != nil {
		l = toT(lo, loV)
	}
	h := ln
	if hi != nil {
		h = toT(hi, hiV)
	}
	m := cp
	if mx != nil {
		m = c.Resize(mx.(IntV).T, 64, true)
	}
	// checks: 0 <= l <= h <= m <= cap   (for strings h <= len)
	limit := cp
	if isStr {
		limit = ln
	}
	if mx != nil {
		e.fail(st, c.Ugt(m, cp), "nopanic:slice-bounds", where)
		limit = m
	}
	e.fail(st, c.Ugt(h, limit), "nopanic:slice-bounds", where)
	e.fail(st, c.Ugt(l, h), "nopanic:slice-bounds", where)
	np := e.indexAddrRaw(p, l)
	if isStr {
		return StringV{P: np, Len: c.Sub(h, l)}
	}
	return SliceV{P: np, Len: c.Sub(h, l), Cap: c.Sub(m, l)}
}

// makeSlice allocates a backing store. Symbolic lengths are bounded by Opts.MaxMake.
func (e *Engine) makeSlice(st *State, typ types.Type, ln, cp smt.Term, lenT types.Type, where string, zero bool) Value {
	c := e.C
	_, signed, _ := intWidth(lenT)
	l64 := c.Resize(ln, 64, signed)
	c64 := c.Resize(cp, 64, signed)
	// Go panics on negative (or absurdly large) lengths
	e.fail(st, c.Slt(l64, c.BV(0, 64)), "nopanic:makeslice-len", where)
	e.fail(st, c.Slt(c64, l64), "nopanic:makeslice-cap", where)
	n := 0
	if c64.IsConst() {
		n = int(c64.Val)
	} else {
		n = e.Opts.MaxMake
		e.boundAssume(st, c.Ule(c64, c.BV(uint64(n), 64)), fmt.Sprintf("make length <= %d at %s", n, where))
	}
	st2 := typ.Underlying().(*types.Slice)
	if isByte(st2.Elem()) {
		o := e.allocBytes(st, n, zero, "mk")
		return SliceV{P: mkPtr(c, o, Sel{I: 0}), Len: l64, Cap: c64}
	}
	el := make([]Value, n)
	z := e.zero(st2.Elem())
	for i := range el {
		el[i] = z
	}
	o := e.allocVal(st, types.NewArray(st2.Elem(), int64(n)), ArrayV{el}, "mk")
	o.N = n
	return SliceV{P: mkPtr(c, o, Sel{I: 0}), Len: l64, Cap: c64}
}

// boundAssume is an assumption that restricts the explored space (reported as a bound).
func (e *Engine) boundAssume(st *State, cond smt.Term, note string) {
	if cond.IsTrue() {
		return
	}
	e.Notes = append(e.Notes, "bound: "+note)
	st.G = e.C.And(st.G, cond)
}

func (e *Engine) stringView(s StringV) StringV {
	if s.S == nil {
		return s
	}
	c := e.C
	o := e.strObj(*s.S)
	return StringV{P: mkPtr(c, o, Sel{I: 0}), Len: c.BV(uint64(len(*s.S)), 64)}
}

// strObj interns constant strings as immutable byte objects (content kept in a side table).
func (e *Engine) strObj(s string) *Obj {
	if o, ok := e.strObjs[s]; ok {
		return o
	}
	if e.strObjs == nil {
		e.strObjs = map[string]*Obj{}
	}
	o := e.newObj(KBytes, types.Typ[types.Uint8], len(s), "str")
	o.Thread = -1
	b := &Bytes{N: len(s), Cells: map[int]smt.Term{}, Zero: true}
	for i := 0; i < len(s); i++ {
		b.Cells[i] = e.C.BV(uint64(s[i]), 8)
	}
	e.strObjs[s] = o
	if e.globalVals == nil {
		e.globalVals = map[*Obj]interface{}{}
	}
	e.globalVals[o] = b
	return o
}

func (e *Engine) unop(st *State, x *ssa.UnOp, v Value, where string) Value {
	c := e.C
	switch x.Op {
	case token.MUL:
		p := v.(PtrV)
		for _, a := range p.Alts {
			if a.Obj != nil {
				e.ensureHeap(st, a.Obj)
			}
		}
		return e.Load(st, p, x.Type(), where)
	case token.SUB:
		return IntV{c.Neg(v.(IntV).T)}
	case token.XOR:
		return IntV{c.BNot(v.(IntV).T)}
	case token.NOT:
		return BoolV{c.Not(v.(BoolV).T)}
	case token.ARROW:
		return e.chanRecv(st, v.(PtrV), x.CommaOk, x.Type(), where)
	}
	panic(e.unsupported("unop " + x.Op.String()))
}

func (e *Engine) binop(st *State, op token.Token, a, b Value, at, bt types.Type, where string) Value {
	c := e.C
	switch x := a.(type) {
	case IntV:
		y, ok := b.(IntV)
		if !ok {
			break
		}
		w, signed, _ := intWidth(at)
		xt, yt := x.T, y.T
		if op == token.SHL || op == token.SHR {
			// shift count has its own type
			_, ysigned, _ := intWidth(bt)
			if ysigned {
				e.fail(st, c.Slt(yt, c.BV(0, yt.W)), "nopanic:negative-shift", where)
			}
			var big smt.Term
			if yt.W > 8 {
				big = c.Uge(yt, c.BV(uint64(w), yt.W))
			} else {
				big = c.Uge(c.ZExt(yt, 16), c.BV(uint64(w), 16))
			}
			ys := c.Resize(yt, w, false)
			if op == token.SHL {
				return IntV{c.Ite(big, c.BV(0, w), c.Shl(xt, ys))}
			}
			if signed {
				return IntV{c.Ite(big, c.AShr(xt, c.BV(uint64(w-1), w)), c.AShr(xt, ys))}
			}
			return IntV{c.Ite(big, c.BV(0, w), c.LShr(xt, ys))}
		}
		if xt.W != yt.W {
			panic(e.unsupported(fmt.Sprintf("binop %s width mismatch %d/%d at %s", op, xt.W, yt.W, where)))
		}
		switch op {
		case token.ADD:
			return IntV{c.Add(xt, yt)}
		case token.SUB:
			return IntV{c.Sub(xt, yt)}
		case token.MUL:
			return IntV{c.Mul(xt, yt)}
		case token.QUO:
			e.fail(st, c.Eq(yt, c.BV(0, w)), "nopanic:divide-by-zero", where)
			if q, _, ok := e.divConst(xt, yt, signed); ok {
				return IntV{q}
			}
			if signed {
				return IntV{c.SDiv(xt, yt)}
			}
			return IntV{e.udivHint(xt, yt, false)}
		case token.REM:
			e.fail(st, c.Eq(yt, c.BV(0, w)), "nopanic:divide-by-zero", where)
			if _, r, ok := e.divConst(xt, yt, signed); ok {
				return IntV{r}
			}
			if signed {
				return IntV{c.SRem(xt, yt)}
			}
			return IntV{e.udivHint(xt, yt, true)}
		case token.AND:
			return IntV{c.BAnd(xt, yt)}
		case token.OR:
			return IntV{c.BOr(xt, yt)}
		case token.XOR:
			return IntV{c.BXor(xt, yt)}
		case token.AND_NOT:
			return IntV{c.BAnd(xt, c.BNot(yt))}
		case token.EQL:
			return BoolV{c.Eq(xt, yt)}
		case token.NEQ:
			return BoolV{c.Ne(xt, yt)}
		case token.LSS:
			if signed {
				return BoolV{c.Slt(xt, yt)}
			}
			return BoolV{c.Ult(xt, yt)}
		case token.LEQ:
			if signed {
				return BoolV{c.Sle(xt, yt)}
			}
			return BoolV{c.Ule(xt, yt)}
		case token.GTR:
			if signed {
				return BoolV{c.Sgt(xt, yt)}
			}
			return BoolV{c.Ugt(xt, yt)}
		case token.GEQ:
			if signed {
				return BoolV{c.Sge(xt, yt)}
			}
			return BoolV{c.Uge(xt, yt)}
		}
	case BoolV:
		y, ok := b.(BoolV)
		if !ok {
			break
		}
		switch op {
		case token.EQL:
			return BoolV{c.Eq(x.T, y.T)}
		case token.NEQ:
			return BoolV{c.Ne(x.T, y.T)}
		case token.AND, token.LAND:
			return BoolV{c.And(x.T, y.T)}
		case token.OR, token.LOR:
			return BoolV{c.Or(x.T, y.T)}
		}
	case PtrV:
		if yi, isInt := b.(IntV); isInt && (op == token.ADD || op == token.SUB) {
			// uintptr arithmetic on a pointer that went through uintptr(unsafe.Pointer(p))
			d := c.Resize(yi.T, 64, false)
			if op == token.SUB {
				d = c.Neg(d)
			}
			out := PtrV{}
			for _, al := range x.Alts {
				if al.Obj == nil || len(al.Path) == 0 {
					out.Alts = append(out.Alts, al)
					continue
				}
				np := append([]Sel{}, al.Path...)
				np[len(np)-1] = addSelT(c, np[len(np)-1], d)
				out.Alts = append(out.Alts, PtrAlt{G: al.G, Obj: al.Obj, Path: np})
			}
			return out
		}
		y, ok := b.(PtrV)
		if !ok {
			break
		}
		eq := ptrEq(c, x, y)
		if op == token.EQL {
			return BoolV{eq}
		}
		if op == token.NEQ {
			return BoolV{c.Not(eq)}
		}
	case SliceV:
		// comparison with nil only
		isnil := ptrIsNil(c, x.P)
		if op == token.EQL {
			return BoolV{isnil}
		}
		if op == token.NEQ {
			return BoolV{c.Not(isnil)}
		}
	case IfaceV:
		y, ok := b.(IfaceV)
		if !ok {
			break
		}
		eq := e.ifaceEq(x, y)
		if op == token.EQL {
			return BoolV{eq}
		}
		if op == token.NEQ {
			return BoolV{c.Not(eq)}
		}
	case FuncV:
		// comparison with nil only
		isnil := c.False
		for _, al := range x.Alts {
			if al.Fn == nil {
				isnil = c.Or(isnil, al.G)
			}
		}
		if op == token.EQL {
			return BoolV{isnil}
		}
		if op == token.NEQ {
			return BoolV{c.Not(isnil)}
		}
	case StringV:
		y, ok := b.(StringV)
		if !ok {
			break
		}
		if x.S != nil && y.S != nil {
			switch op {
			case token.ADD:
				s := *x.S + *y.S
				return StringV{S: &s}
			case token.EQL:
				return BoolV{c.Bool(*x.S == *y.S)}
			case token.NEQ:
				return BoolV{c.Bool(*x.S != *y.S)}
			}
		}
		if op == token.ADD {
			return e.opaqueString()
		}
		if op == token.EQL || op == token.NEQ {
			// compare lengths when one side is concrete-empty, else opaque
			xv, yv := e.stringView(x), e.stringView(y)
			if (x.S != nil && *x.S == "") || (y.S != nil && *y.S == "") {
				eq := c.Eq(xv.Len, yv.Len)
				if op == token.EQL {
					return BoolV{eq}
				}
				return BoolV{c.Not(eq)}
			}
			// byte-backed strings of known length: by content (valueEq); else unconstrained
			save := e.eqSt
			e.eqSt = st
			eq := e.valueEq(x, y)
			e.eqSt = save
			if op == token.EQL {
				return BoolV{eq}
			}
			return BoolV{c.Not(eq)}
		}
	case StructV:
		y, ok := b.(StructV)
		if ok && (op == token.EQL || op == token.NEQ) {
			eq := c.True
			st2 := at.Underlying().(*types.Struct)
			for i := range x.F {
				f := e.binop(st, token.EQL, x.F[i], y.F[i], st2.Field(i).Type(), st2.Field(i).Type(), where).(BoolV).T
				eq = c.And(eq, f)
			}
			if op == token.EQL {
				return BoolV{eq}
			}
			return BoolV{c.Not(eq)}
		}
	case OpaqueV:
		if op == token.EQL || op == token.NEQ || op == token.LSS || op == token.GTR || op == token.LEQ || op == token.GEQ {
			return BoolV{c.Fresh("opq", 0)}
		}
		return OpaqueV{Tag: x.Tag}
	}
	panic(e.unsupported(fmt.Sprintf("binop %s on %T,%T at %s", op, a, b, where)))
}

func (e *Engine) opaqueString() StringV {
	c := e.C
	o := e.newObj(KBytes, types.Typ[types.Uint8], 0, "ostr")
	o.Thread = -1
	if e.globalVals == nil {
		e.globalVals = map[*Obj]interface{}{}
	}
	e.globalVals[o] = &Bytes{N: 0, Cells: map[int]smt.Term{}, Zero: true}
	return StringV{P: mkPtr(c, o, Sel{I: 0}), Len: c.BV(0, 64)}
}

// divConst encodes division/remainder of a symbolic x by a constant that is not a power of two
// with fresh quotient/remainder variables and their defining constraints (x = q*c + r, range of
// r and q). The constraints determine q and r uniquely, so the encoding is equivalent to the
// bvudiv/bvsdiv circuit but needs only a constant multiplication, which all back ends decide.
func (e *Engine) divConst(x, y smt.Term, signed bool) (smt.Term, smt.Term, bool) {
	c := e.C
	if x.IsConst() || !y.IsConst() || y.Val == 0 {
		return nil, nil, false
	}
	w := x.W
	cv := y.Val
	if signed {
		if y.SVal() <= 0 {
			return nil, nil, false
		}
	}
	if cv&(cv-1) == 0 {
		return nil, nil, false // power of two: the native circuit is cheap
	}
	key := fmt.Sprintf("%d/%d/%v", x.ID, cv, signed)
	if e.divCache == nil {
		e.divCache = map[string][2]smt.Term{}
	}
	if qr, ok := e.divCache[key]; ok {
		return qr[0], qr[1], true
	}
	q := c.Fresh("divq", w)
	r := c.Fresh("divr", w)
	zero := c.BV(0, w)
	eq := c.Eq(x, c.Add(c.Mul(q, y), r))
	var def smt.Term
	if signed {
		maxv := uint64(1)<<(uint(w)-1) - 1
		qmax := c.BV(maxv/cv, w)
		qmin := c.Neg(qmax)
		if cv == 1 {
			qmin = c.BV(uint64(1)<<(uint(w)-1), w)
		}
		pos := c.And(c.Sle(zero, r), c.Slt(r, y), c.Sle(zero, q), c.Sle(q, qmax))
		neg := c.And(c.Slt(c.Neg(y), r), c.Sle(r, zero), c.Sle(qmin, q), c.Sle(q, zero))
		def = c.And(eq, c.Ite(c.Sle(zero, x), pos, neg))
	} else {
		qmax := c.BV(mask64(w)/cv, w)
		prod := c.Mul(q, y)
		def = c.And(eq, c.Ult(r, y), c.Ule(q, qmax), c.Uge(c.Add(prod, r), prod))
	}
	e.Hints = append(e.Hints, def)
	e.divCache[key] = [2]smt.Term{q, r}
	return q, r, true
}

func mask64(w int) uint64 {
	if w >= 64 {
		return ^uint64(0)
	}
	return (uint64(1) << uint(w)) - 1
}

// udivHint builds x/y (or x%y) and records the implied fact q*y+r=x ∧ r<y as a hint.
func (e *Engine) udivHint(x, y smt.Term, rem bool) smt.Term {
	c := e.C
	q := c.UDiv(x, y)
	r := c.URem(x, y)
	if !(x.IsConst() && y.IsConst()) && x.W <= 32 {
		w := x.W * 2
		lhs := c.Add(c.Mul(c.ZExt(q, w), c.ZExt(y, w)), c.ZExt(r, w))
		h := c.Implies(c.Ne(y, c.BV(0, y.W)), c.And(c.Eq(lhs, c.ZExt(x, w)), c.Ult(r, y)))
		e.Hints = append(e.Hints, h)
	}
	if rem {
		return r
	}
	return q
}

func (e *Engine) ifaceEq(x, y IfaceV) smt.Term {
	c := e.C
	r := c.False
	for _, a := range x.Alts {
		for _, b := range y.Alts {
			if typeKey(a.T) != typeKey(b.T) {
				continue
			}
			g := c.And(a.G, b.G)
			if a.T == nil {
				r = c.Or(r, g)
				continue
			}
			r = c.Or(r, c.And(g, e.valueEq(a.V, b.V)))
		}
	}
	return r
}

func (e *Engine) valueEq(a, b Value) smt.Term {
	c := e.C
	switch x := a.(type) {
	case IntV:
		return c.Eq(x.T, b.(IntV).T)
	case BoolV:
		return c.Eq(x.T, b.(BoolV).T)
	case PtrV:
		return ptrEq(c, x, b.(PtrV))
	case StringV:
		y := b.(StringV)
		if x.S != nil && y.S != nil {
			return c.Bool(*x.S == *y.S)
		}
		if st := e.eqSt; st != nil {
			// strings built from bytes (string(b[i:j])): compare lengths and contents
			xv, yv := e.stringView(x), e.stringView(y)
			if xv.Len.IsConst() && yv.Len.IsConst() && xv.Len.Val <= 64 && len(xv.P.Alts) == 1 && len(yv.P.Alts) == 1 && xv.P.Alts[0].Obj != nil && yv.P.Alts[0].Obj != nil &&
				xv.P.Alts[0].Obj.Name != "ostr" && yv.P.Alts[0].Obj.Name != "ostr" {
				if xv.Len.Val != yv.Len.Val {
					return c.False
				}
				r := c.True
				for i := uint64(0); i < xv.Len.Val; i++ {
					a := e.Load(st, e.indexAddrRaw(xv.P, c.BV(i, 64)), types.Typ[types.Uint8], "string==").(IntV).T
					b := e.Load(st, e.indexAddrRaw(yv.P, c.BV(i, 64)), types.Typ[types.Uint8], "string==").(IntV).T
					r = c.And(r, c.Eq(a, b))
				}
				return r
			}
		}
		return c.Fresh("streq", 0)
	case StructV:
		y := b.(StructV)
		r := c.True
		for i := range x.F {
			r = c.And(r, e.valueEq(x.F[i], y.F[i]))
		}
		return r
	case OpaqueV:
		if y, ok := b.(OpaqueV); ok && x == y {
			return c.True
		}
		return c.Fresh("opqeq", 0)
	}
	panic(e.unsupported(fmt.Sprintf("equality on %T", a)))
}

func (e *Engine) convert(st *State, v Value, from, to types.Type, where string) Value {
	c := e.C
	fu, tu := from.Underlying(), to.Underlying()
	if wt, _, ok := intWidth(tu); ok {
		if iv, ok2 := v.(IntV); ok2 {
			_, fs, _ := intWidth(fu)
			return IntV{c.Resize(iv.T, wt, fs)}
		}
		if _, ok2 := v.(OpaqueV); ok2 { // float -> int
			return IntV{c.Fresh("f2i", wt)}
		}
		if pv, ok2 := v.(PtrV); ok2 {
			// unsafe.Pointer -> uintptr: keep the pointer (only flows into stubs)
			return pv
		}
	}
	if b, ok := tu.(*types.Basic); ok && (b.Info()&types.IsFloat) != 0 {
		return OpaqueV{Tag: "float"}
	}
	switch tu.(type) {
	case *types.Pointer:
		return v // unsafe.Pointer -> *T
	case *types.Basic:
		if tu.(*types.Basic).Kind() == types.UnsafePointer {
			return v
		}
		if isString(tu) {
			switch x := v.(type) {
			case SliceV: // string([]byte): copy
				return e.copyToString(st, x, where)
			case StringV:
				return x
			case IntV:
				return e.opaqueString()
			}
		}
	case *types.Slice:
		if sv, ok := v.(StringV); ok { // []byte(string): copy
			vw := e.stringView(sv)
			return e.copyBytes(st, SliceV{P: vw.P, Len: vw.Len, Cap: vw.Len}, where)
		}
		return v
	}
	panic(e.unsupported(fmt.Sprintf("convert %s -> %s (%T) at %s", from, to, v, where)))
}

// copyBytes clones the [0,len) bytes of a slice into a fresh region (len must be bounded).
func (e *Engine) copyBytes(st *State, s SliceV, where string) SliceV {
	c := e.C
	n := 0
	if s.Len.IsConst() {
		n = int(s.Len.Val)
	} else {
		n = e.Opts.MaxMake
		e.boundAssume(st, c.Ule(s.Len, c.BV(uint64(n), 64)), fmt.Sprintf("copied length <= %d at %s", n, where))
	}
	o := e.allocBytes(st, n, true, "cp")
	dst := SliceV{P: mkPtr(c, o, Sel{I: 0}), Len: s.Len, Cap: s.Len}
	e.copyRange(st, dst, s, s.Len, n, where)
	return dst
}

func (e *Engine) copyToString(st *State, s SliceV, where string) StringV {
	d := e.copyBytes(st, s, where)
	return StringV{P: d.P, Len: d.Len}
}

// copyRange copies n (symbolic, <= max) elements from src to dst.
func (e *Engine) copyRange(st *State, dst, src SliceV, n smt.Term, max int, where string) {
	c := e.C
	if max == 0 {
		return
	}
	// memmove semantics: read all sources first
	vals := make([]Value, max)
	for i := 0; i < max; i++ {
		if n.IsConst() && uint64(i) >= n.Val {
			max = i
			break
		}
		sub := &State{G: c.And(st.G, c.Ugt(n, c.BV(uint64(i), 64))), Heap: st.Heap, Th: st.Th}
		if sub.G.IsFalse() {
			max = i
			break
		}
		p := e.indexAddrRaw(src.P, c.BV(uint64(i), 64))
		vals[i] = e.loadElem(sub, p, where)
	}
	for i := 0; i < max; i++ {
		g := c.Ugt(n, c.BV(uint64(i), 64))
		p := e.indexAddrRaw(dst.P, c.BV(uint64(i), 64))
		// guard each alt with g
		gp := PtrV{}
		for _, a := range p.Alts {
			if a.Obj == nil {
				continue
			}
			gp.Alts = append(gp.Alts, PtrAlt{G: c.And(a.G, g), Obj: a.Obj, Path: a.Path})
		}
		e.storeElem(st, gp, vals[i], where)
	}
}

// loadElem / storeElem: element access where the element type is derived from the object.
func (e *Engine) elemType(o *Obj) types.Type {
	if o.Kind == KBytes {
		return types.Typ[types.Uint8]
	}
	if at, ok := o.Typ.Underlying().(*types.Array); ok {
		return at.Elem()
	}
	return o.Typ
}

func (e *Engine) loadElem(st *State, p PtrV, where string) Value {
	var res Value
	for _, a := range p.Alts {
		if a.Obj == nil || a.G.IsFalse() {
			continue
		}
		e.ensureHeap(st, a.Obj)
		v := e.loadAlt(st, a, e.elemTypeAt(a), where)
		if res == nil {
			res = v
		} else {
			res = e.Merge(a.G, v, res)
		}
	}
	if res == nil {
		return IntV{e.C.BV(0, 8)}
	}
	return res
}

func (e *Engine) elemTypeAt(a PtrAlt) types.Type {
	if a.Obj.Kind == KBytes {
		return types.Typ[types.Uint8]
	}
	t := typeAt(a.Obj.Typ, a.Path)
	if t == nil {
		panic(e.unsupported("cannot derive element type"))
	}
	return t
}

func (e *Engine) storeElem(st *State, p PtrV, v Value, where string) {
	for _, a := range p.Alts {
		if a.Obj == nil || a.G.IsFalse() {
			continue
		}
		e.ensureHeap(st, a.Obj)
		e.storeAlt(st, a, v, e.elemTypeAt(a), where)
	}
}

func (e *Engine) typeAssert(st *State, x *ssa.TypeAssert, iv IfaceV, where string) Value {
	c := e.C
	_, toIface := x.AssertedType.Underlying().(*types.Interface)
	okT := c.False
	var res Value
	for _, a := range iv.Alts {
		if a.T == nil {
			continue
		}
		match := false
		if toIface {
			match = types.Implements(a.T, x.AssertedType.Underlying().(*types.Interface))
		} else {
			match = types.Identical(a.T, x.AssertedType)
		}
		if match {
			okT = c.Or(okT, a.G)
			var v Value
			if toIface {
				v = IfaceV{Alts: []IfaceAlt{{G: c.True, T: a.T, V: a.V}}}
			} else {
				v = a.V
			}
			if res == nil {
				res = v
			} else {
				res = e.Merge(a.G, v, res)
			}
		}
	}
	if res == nil {
		res = e.zero(x.AssertedType)
	}
	if x.CommaOk {
		return TupleV{res, BoolV{okT}}
	}
	e.fail(st, c.Not(okT), "nopanic:type-assertion", where)
	return res
}

func (e *Engine) initAllowed(full string) bool {
	return full == "errors.New"
}

func (e *Engine) ignoredByPattern(fn *ssa.Function, full string) bool {
	if strings.Contains(full, "shmipc-go.logger).") || strings.HasSuffix(full, "shmipc-go.protocolTrace") {
		return true
	}
	return false
}
