package sym

import (
	"fmt"
	"go/types"
	"os"
	"sort"

	"golang.org/x/tools/go/ssa"

	"verif/engine/smt"
)

type SharedRegion struct {
	Obj   *Obj
	Align int
}

type EvKind int

const (
	EvLoad EvKind = iota
	EvStore
	EvAdd
	EvCAS
	EvSwap
	EvLock
	EvUnlock
	EvBegin
	EvEnd
	EvChanSend    // blocking send: waits for room
	EvChanRecv    // blocking receive: waits for an element or close
	EvChanTrySend // select-with-default send
	EvChanTryRecv // select-with-default receive
	EvChanClose
)

var evName = map[EvKind]string{EvLoad: "load", EvStore: "store", EvAdd: "add", EvCAS: "cas", EvSwap: "swap",
	EvLock: "lock", EvUnlock: "unlock", EvBegin: "atomic-begin", EvEnd: "atomic-end",
	EvChanSend: "chan-send", EvChanRecv: "chan-recv", EvChanTrySend: "chan-trysend", EvChanTryRecv: "chan-tryrecv", EvChanClose: "chan-close"}

type Event struct {
	Idx    int
	G      smt.Term
	Kind   EvKind
	Obj    *Obj
	Off    Sel // byte offset in region
	N      int // bytes
	Val    smt.Term
	Old    smt.Term
	Res    smt.Term // fresh var
	Atomic bool
	Where  string
	Lock   string // lock key
	Cands  []int
	GoKey  string // Go-object scalar cell / channel key
	GoObj  *Obj
	GoPath []Sel
	Cap    int
}

type Thread struct {
	Cut    int  // >= 0: the first segment ends after exactly Cut events (schedule point fixed by a shape)
	Atomic bool // runs entirely, without preemption, in round 0 (sequential adversary)
	ID     int
	Fn     FuncV
	Events []*Event
	EndG   smt.Term
	Site   string
	Cs     []smt.Term
}

func (e *Engine) markShared(st *State, s SliceV, align Value, site string) {
	a, ok := s.P.single()
	if !ok || a.Obj == nil || a.Obj.Kind != KBytes {
		panic(e.unsupported("vfShared needs a byte region"))
	}
	al, _ := constInt(align)
	if al <= 0 {
		al = 1
	}
	r := &SharedRegion{Obj: a.Obj, Align: al}
	a.Obj.Shared = r
	e.Regions = append(e.Regions, r)
}

func (e *Engine) spawnCut(st *State, f FuncV, cut int, site string) {
	th := &Thread{ID: len(e.Threads), Fn: f, Site: site, Cut: cut}
	e.Threads = append(e.Threads, th)
}

func (e *Engine) spawn(st *State, f FuncV, site string) {
	th := &Thread{ID: len(e.Threads), Fn: f, Site: site, Cut: -1}
	e.Threads = append(e.Threads, th)
}

func (e *Engine) spawnAtomic(st *State, f FuncV, site string) {
	th := &Thread{ID: len(e.Threads), Fn: f, Site: site, Atomic: true, Cut: -1}
	e.Threads = append(e.Threads, th)
}

func (e *Engine) spawnFunc(st *State, f FuncV, site string) {
	if st.Th == nil && e.GoPolicy == "coro" {
		e.addCoro(st, &ssa.CallCommon{}, f, nil, nil, site)
		return
	}
	if st.Th == nil && e.GoPolicy == "inline" {
		// the goroutine runs to completion at once: one legal schedule (the only one examined)
		e.Notes = append(e.Notes, "goroutine started at "+site+" runs to completion immediately (single schedule)")
		e.doCall(nil, st, &ssa.CallCommon{}, f, nil, nil, site)
		return
	}
	if st.Th == nil && e.GoPolicy == "skip" {
		e.Notes = append(e.Notes, "goroutine started at "+site+" is not executed (outside this check)")
		return
	}
	panic(e.unsupported("goroutine creation inside code under test (gopool.Go) at " + site))
}

type deferredGo struct {
	cc   *ssa.CallCommon
	fnv  Value
	recv Value
	args []Value
	site string
	g    smt.Term // path guard under which the go statement was executed
}

// runDeferredGo executes the goroutines recorded under go_policy=defer, in start order, each to
// completion (vfRunGoroutines): one legal schedule in which they run at a harness-chosen moment.
func (e *Engine) runDeferredGo(st *State) {
	list := e.goDeferred
	e.goDeferred = nil
	c := e.C
	for _, g := range list {
		on := c.And(st.G, g.g)
		if on.IsFalse() {
			continue
		}
		if c.And(st.G, c.Not(g.g)).IsFalse() {
			e.doCall(nil, st, g.cc, g.fnv, g.recv, g.args, g.site)
			continue
		}
		// started on some paths only: it runs under that guard, the rest of the state is untouched
		run := &State{G: on, Heap: cloneHeap(st.Heap), Th: st.Th}
		e.doCall(nil, run, g.cc, g.fnv, g.recv, g.args, g.site)
		rest := &State{G: c.And(st.G, c.Not(g.g)), Heap: st.Heap, Th: st.Th}
		m := e.mergeStates(run, rest)
		st.G, st.Heap = m.G, m.Heap
	}
}

func (e *Engine) spawnGo(st *State, cc *ssa.CallCommon, fnv, recv Value, args []Value, site string) {
	if st.Th == nil && e.GoPolicy == "coro" {
		e.addCoro(st, cc, fnv, recv, args, site)
		return
	}
	if st.Th == nil && e.GoPolicy == "defer" {
		e.Notes = append(e.Notes, "goroutine started at "+site+" runs when the harness says so (vfRunGoroutines)")
		e.goDeferred = append(e.goDeferred, deferredGo{cc, fnv, recv, args, site, st.G})
		return
	}
	if st.Th == nil && e.GoPolicy == "inline" {
		e.Notes = append(e.Notes, "goroutine started at "+site+" runs to completion immediately (single schedule)")
		e.doCall(nil, st, cc, fnv, recv, args, site)
		return
	}
	if st.Th == nil && e.GoPolicy == "skip" {
		e.Notes = append(e.Notes, "goroutine started at "+site+" is not executed (outside this check)")
		return
	}
	panic(e.unsupported("go statement inside code under test at " + site))
}

func (e *Engine) atomicMark(st *State, begin bool) {
	if st.Th == nil {
		return
	}
	k := EvEnd
	if begin {
		k = EvBegin
	}
	th := st.Th
	th.Events = append(th.Events, &Event{Idx: len(th.Events), G: st.G, Kind: k})
}

func (e *Engine) noteForeignWrite(st *State, o *Obj, where string) {
	if o.Thread != -1 {
		return
	}
	if e.writers == nil {
		e.writers = map[*Obj]map[int]bool{}
	}
	if e.writers[o] == nil {
		e.writers[o] = map[int]bool{}
	}
	e.writers[o][st.Th.ID] = true
}

// offsetCands computes the candidate set of an offset term; needAlign reports that the set relies
// on the region's alignment (which the caller must then assert).
func (e *Engine) offsetCands(t smt.Term, n int, align int, limit int) (set []int, needAlign bool, ok bool) {
	var rec func(t smt.Term, depth int) ([]int, bool, bool)
	rec = func(t smt.Term, depth int) ([]int, bool, bool) {
		if depth > 12 {
			return nil, false, false
		}
		switch t.Op {
		case smt.OpConst:
			return []int{int(t.SVal())}, false, true
		case smt.OpZExt, smt.OpSExt:
			return rec(t.Args[0], depth+1)
		case smt.OpAdd:
			a, na, oka := rec(t.Args[0], depth+1)
			b, nb, okb := rec(t.Args[1], depth+1)
			if !oka || !okb || len(a)*len(b) > 8192 {
				return nil, false, false
			}
			m := map[int]bool{}
			for _, x := range a {
				for _, y := range b {
					m[x+y] = true
				}
			}
			return keys(m), na || nb, true
		case smt.OpMul:
			if t.Args[1].IsConst() {
				a, na, oka := rec(t.Args[0], depth+1)
				if !oka {
					return nil, false, false
				}
				k := int(t.Args[1].SVal())
				out := make([]int, len(a))
				for i, x := range a {
					out[i] = x * k
				}
				return out, na, true
			}
		case smt.OpURem, smt.OpSRem:
			if t.Args[1].IsConst() && t.Args[1].Val > 0 && t.Args[1].Val <= 4096 {
				out := make([]int, t.Args[1].Val)
				for i := range out {
					out[i] = i
				}
				return out, false, true
			}
		case smt.OpIte:
			a, na, oka := rec(t.Args[1], depth+1)
			b, nb, okb := rec(t.Args[2], depth+1)
			if !oka || !okb {
				return nil, false, false
			}
			m := map[int]bool{}
			for _, x := range a {
				m[x] = true
			}
			for _, x := range b {
				m[x] = true
			}
			return keys(m), na || nb, true
		case smt.OpVar:
			if align > 1 {
				var out []int
				for i := 0; i < limit; i += align {
					out = append(out, i)
				}
				return out, true, true
			}
		}
		return nil, false, false
	}
	s, na, ok := rec(t, 0)
	if !ok {
		return nil, false, false
	}
	var out []int
	for _, x := range s {
		if x >= 0 && x+n <= limit {
			out = append(out, x)
		}
	}
	sort.Ints(out)
	return out, na, true
}

func keys(m map[int]bool) []int {
	out := make([]int, 0, len(m))
	for k := range m {
		out = append(out, k)
	}
	sort.Ints(out)
	return out
}

// alignCond: the condition under which the raw (loaded) values an offset term is built from are
// multiples of the region's alignment, following the structure offsetCands relies on.
func (e *Engine) alignCond(t smt.Term, align int) smt.Term {
	c := e.C
	memo := map[int]smt.Term{}
	var rec func(t smt.Term) smt.Term
	rec = func(t smt.Term) smt.Term {
		if r, ok := memo[t.ID]; ok {
			return r
		}
		var r smt.Term = c.True
		switch t.Op {
		case smt.OpVar:
			r = c.Eq(c.URem(t, c.BV(uint64(align), t.W)), c.BV(0, t.W))
		case smt.OpZExt, smt.OpSExt:
			r = rec(t.Args[0])
		case smt.OpAdd:
			r = c.And(rec(t.Args[0]), rec(t.Args[1]))
		case smt.OpMul:
			r = rec(t.Args[0])
		case smt.OpIte:
			r = c.Ite(t.Args[0], rec(t.Args[1]), rec(t.Args[2]))
		}
		memo[t.ID] = r
		return r
	}
	return rec(t)
}

func (e *Engine) eventCands(st *State, o *Obj, off Sel, n int, where string) []int {
	if off.T == nil {
		return []int{off.I}
	}
	set, needAlign, ok := e.offsetCands(off.T, n, o.Shared.Align, o.N)
	if !ok {
		set = nil
		for i := 0; i+n <= o.N; i++ {
			set = append(set, i)
		}
		return set
	}
	if needAlign {
		e.fail(st, e.C.Not(e.alignCond(off.T, o.Shared.Align)), "aligned:offset-not-at-boundary", where)
	}
	return set
}

func (e *Engine) addEvent(st *State, ev *Event) {
	th := st.Th
	ev.Idx = len(th.Events)
	ev.G = st.G
	th.Events = append(th.Events, ev)
}

func (e *Engine) sharedLoad(st *State, alt PtrAlt, typ types.Type, where string) Value {
	c := e.C
	o := alt.Obj
	off := alt.Path[len(alt.Path)-1]
	n := typeSize(typ)
	if n <= 0 {
		panic(e.unsupported("shared load of " + typ.String()))
	}
	sub := &State{G: c.And(st.G, alt.G), Heap: st.Heap, Th: st.Th}
	e.checkRaw(sub, c.True, o, off, n, where)
	cands := e.eventCands(sub, o, off, n, where)
	res := c.Fresh(fmt.Sprintf("ld_t%d", st.Th.ID), n*8)
	e.addEvent(sub, &Event{Kind: EvLoad, Obj: o, Off: off, N: n, Res: res, Where: where, Cands: cands})
	st.G = c.And(st.G, c.Or(c.Not(alt.G), sub.G))
	if isBool(typ) {
		return BoolV{c.Ne(res, c.BV(0, 8))}
	}
	return IntV{res}
}

func (e *Engine) sharedStore(st *State, alt PtrAlt, v Value, typ types.Type, where string) {
	c := e.C
	o := alt.Obj
	off := alt.Path[len(alt.Path)-1]
	n := typeSize(typ)
	if n <= 0 {
		panic(e.unsupported("shared store of " + typ.String()))
	}
	var t smt.Term
	switch x := v.(type) {
	case IntV:
		t = x.T
	case BoolV:
		t = c.Ite(x.T, c.BV(1, 8), c.BV(0, 8))
	default:
		panic(e.unsupported(fmt.Sprintf("shared store of %T", v)))
	}
	sub := &State{G: c.And(st.G, alt.G), Heap: st.Heap, Th: st.Th}
	e.checkRaw(sub, c.True, o, off, n, where)
	cands := e.eventCands(sub, o, off, n, where)
	e.addEvent(sub, &Event{Kind: EvStore, Obj: o, Off: off, N: n, Val: t, Where: where, Cands: cands})
	st.G = c.And(st.G, c.Or(c.Not(alt.G), sub.G))
}

func (e *Engine) sharedAtomic(st *State, kind string, p PtrV, et types.Type, a, b Value, site string) (Value, bool) {
	c := e.C
	// targets: shared byte regions, or scalar fields of Go objects created before the threads
	// (those become shared cells); thread-local objects use the sequential model
	for _, al := range p.Alts {
		if al.Obj == nil {
			return nil, false
		}
		if al.Obj.Shared == nil && !(al.Obj.Kind == KVal && al.Obj.Thread != st.Th.ID) {
			return nil, false
		}
	}
	if len(p.Alts) != 1 {
		panic(e.unsupported("atomic on pointer with several targets"))
	}
	alt := p.Alts[0]
	o := alt.Obj
	if o.Shared == nil {
		return e.goCellAtomic(st, kind, alt, et, a, b, site), true
	}
	off := alt.Path[len(alt.Path)-1]
	n := typeSize(et)
	e.checkRaw(st, c.True, o, off, n, site)
	cands := e.eventCands(st, o, off, n, site)
	ev := &Event{Obj: o, Off: off, N: n, Where: site, Atomic: true, Cands: cands}
	switch kind {
	case "load":
		ev.Kind = EvLoad
		ev.Res = c.Fresh(fmt.Sprintf("ald_t%d", st.Th.ID), n*8)
		e.addEvent(st, ev)
		return IntV{ev.Res}, true
	case "store":
		ev.Kind = EvStore
		ev.Val = a.(IntV).T
		e.addEvent(st, ev)
		return nil, true
	case "add":
		ev.Kind = EvAdd
		ev.Val = a.(IntV).T
		ev.Res = c.Fresh(fmt.Sprintf("add_t%d", st.Th.ID), n*8)
		e.addEvent(st, ev)
		return IntV{ev.Res}, true
	case "swap":
		ev.Kind = EvSwap
		ev.Val = a.(IntV).T
		ev.Res = c.Fresh(fmt.Sprintf("swp_t%d", st.Th.ID), n*8)
		e.addEvent(st, ev)
		return IntV{ev.Res}, true
	case "cas":
		ev.Kind = EvCAS
		ev.Old = a.(IntV).T
		ev.Val = b.(IntV).T
		ev.Res = c.Fresh(fmt.Sprintf("cas_t%d", st.Th.ID), 0)
		e.addEvent(st, ev)
		return BoolV{ev.Res}, true
	}
	panic("sharedAtomic")
}

// sharedMutex: a mutex inside an object created before the threads were spawned is a lock cell.
func (e *Engine) sharedMutex(st *State, p PtrV, recvT types.Type, op string, site string) bool {
	a, ok := p.single()
	if !ok || a.Obj == nil {
		return false
	}
	if a.Obj.Thread == st.Th.ID {
		return false // thread-local mutex
	}
	key := fmt.Sprintf("%d%v", a.Obj.ID, a.Path)
	switch op {
	case "lock":
		e.addEvent(st, &Event{Kind: EvLock, Lock: key, Where: site})
	case "unlock":
		e.addEvent(st, &Event{Kind: EvUnlock, Lock: key, Where: site})
	default:
		panic(e.unsupported("shared " + op))
	}
	return true
}

// ---------------------------------------------------------------------------------------------
// join: run the thread bodies, then compose them under a symbolic schedule.

type ComposeStats struct {
	Threads      int
	Rounds       int
	EventsPerThr []int
	Cells        int
}

func (e *Engine) join(st *State, site string) {
	c := e.C
	if st.Th != nil {
		panic(e.unsupported("vfJoin inside a thread"))
	}
	if len(e.Threads) == 0 {
		return
	}
	R := e.Rounds
	if R <= 0 {
		R = 2
	}
	// 1. run thread bodies
	baseHeap := cloneHeap(st.Heap)
	finals := make([]*State, len(e.Threads))
	for _, th := range e.Threads {
		ts := &State{G: st.G, Heap: cloneHeap(st.Heap), Th: th}
		save := e.curThread
		e.curThread = th.ID
		e.doCall(nil, ts, &ssa.CallCommon{}, th.Fn, nil, nil, th.Site)
		e.curThread = save
		th.EndG = ts.G
		finals[th.ID] = ts
	}
	// 2. schedule variables
	var cons []smt.Term
	const csW = 16
	for _, th := range e.Threads {
		n := len(th.Events)
		if n >= 1<<15 {
			panic(e.unsupported("too many events"))
		}
		th.Cs = make([]smt.Term, R)
		for r := 0; r < R; r++ {
			if th.Atomic {
				th.Cs[r] = c.BV(uint64(n), csW)
				continue
			}
			if th.Cut >= 0 {
				if th.Cut > n {
					panic(&PruneCase{})
				}
				if r == 0 {
					th.Cs[r] = c.BV(uint64(th.Cut), csW)
				} else {
					th.Cs[r] = c.BV(uint64(n), csW)
				}
				continue
			}
			th.Cs[r] = c.Var(fmt.Sprintf("cs_t%d_r%d", th.ID, r), csW)
			if r > 0 {
				cons = append(cons, c.Ule(th.Cs[r-1], th.Cs[r]))
			}
			cons = append(cons, c.Ule(th.Cs[r], c.BV(uint64(n), csW)))
		}
		// atomic blocks: no switch strictly inside
		begin := -1
		var beginG smt.Term
		for _, ev := range th.Events {
			switch ev.Kind {
			case EvBegin:
				begin = ev.Idx
				beginG = ev.G
			case EvEnd:
				if begin >= 0 {
					for r := 0; r < R; r++ {
						inside := c.And(c.Ugt(th.Cs[r], c.BV(uint64(begin), csW)), c.Ule(th.Cs[r], c.BV(uint64(ev.Idx), csW)))
						cons = append(cons, c.Implies(beginG, c.Not(inside)))
					}
				}
				begin = -1
			}
		}
	}
	// 3. memory: per region cells; regions declared 4-aligned (and a multiple of 4 long) use
	// 32-bit word cells, others byte cells. Accesses are assembled from / scattered into cells
	// bytewise; the term simplifier folds whole-word accesses back into single cells.
	mem := map[*Obj][]smt.Term{}
	gran := map[*Obj]int{}
	for _, r := range e.Regions {
		b := st.Heap[r.Obj].(*Bytes)
		g := 1
		if r.Align%4 == 0 && b.N%4 == 0 {
			g = 4
		}
		gran[r.Obj] = g
		cells := make([]smt.Term, b.N/g)
		for i := range cells {
			var t smt.Term
			for k := 0; k < g; k++ {
				bt := b.get(c, i*g+k)
				if t == nil {
					t = bt
				} else {
					t = c.Concat(bt, t)
				}
			}
			cells[i] = t
		}
		mem[r.Obj] = cells
	}
	locks := map[string]smt.Term{}
	gomem := map[string]smt.Term{}
	gocell := map[string]*Event{}
	for _, th := range e.Threads {
		for _, ev := range th.Events {
			if ev.GoKey != "" {
				if _, ok := gocell[ev.GoKey]; !ok {
					gocell[ev.GoKey] = ev
				}
			}
		}
	}
	stats := ComposeStats{Threads: len(e.Threads), Rounds: R}
	for _, th := range e.Threads {
		stats.EventsPerThr = append(stats.EventsPerThr, len(th.Events))
	}
	byteAt := func(cells []smt.Term, g int, i int) smt.Term {
		if g == 1 {
			return cells[i]
		}
		sh := (i % g) * 8
		return c.Extract(cells[i/g], sh+7, sh)
	}
	readAt := func(cells []smt.Term, g int, off int, n int) smt.Term {
		var t smt.Term
		for k := 0; k < n; k++ {
			bt := byteAt(cells, g, off+k)
			if t == nil {
				t = bt
			} else {
				t = c.Concat(bt, t)
			}
		}
		return t
	}
	// writeAt returns, per touched cell index, the new cell content when val is stored at off
	writeAt := func(cells []smt.Term, g int, off int, n int, val smt.Term) map[int]smt.Term {
		out := map[int]smt.Term{}
		for ci := off / g; ci <= (off+n-1)/g; ci++ {
			var t smt.Term
			for k := 0; k < g; k++ {
				bi := ci*g + k
				var bt smt.Term
				if bi >= off && bi < off+n {
					bt = c.Extract(val, (bi-off)*8+7, (bi-off)*8)
				} else {
					bt = byteAt(cells, g, bi)
				}
				if t == nil {
					t = bt
				} else {
					t = c.Concat(bt, t)
				}
			}
			out[ci] = t
		}
		return out
	}
	offEq := func(ev *Event, cd int) smt.Term {
		if ev.Off.T == nil {
			return c.Bool(ev.Off.I == cd)
		}
		return c.Eq(ev.Off.T, c.BV(uint64(cd), 64))
	}
	for r := 0; r < R; r++ {
		for _, th := range e.Threads {
			for _, ev := range th.Events {
				if ev.G.IsFalse() {
					continue
				}
				idx := c.BV(uint64(ev.Idx), csW)
				w := c.And(ev.G, c.Ult(idx, th.Cs[r]))
				if r > 0 {
					w = c.And(w, c.Uge(idx, th.Cs[r-1]))
				}
				switch ev.Kind {
				case EvBegin, EvEnd:
					continue
				case EvLock:
					cur, ok := locks[ev.Lock]
					if !ok {
						cur = c.False
					}
					cons = append(cons, c.Implies(w, c.Not(cur)))
					locks[ev.Lock] = c.Or(cur, w)
					continue
				case EvUnlock:
					cur, ok := locks[ev.Lock]
					if !ok {
						cur = c.False
					}
					locks[ev.Lock] = c.And(cur, c.Not(w))
					continue
				}
				if ev.GoKey != "" {
					e.composeGo(st, ev, w, gomem, &cons)
					continue
				}
				cells := mem[ev.Obj]
				g := gran[ev.Obj]
				if cells == nil {
					panic(e.unsupported("event on region without cells"))
				}
				// current value at the event's address
				var cur smt.Term
				for i := len(ev.Cands) - 1; i >= 0; i-- {
					v := readAt(cells, g, ev.Cands[i], ev.N)
					if cur == nil {
						cur = v
					} else {
						cur = c.Ite(offEq(ev, ev.Cands[i]), v, cur)
					}
				}
				if cur == nil {
					continue // no in-range candidate: the access already failed its bounds obligation
				}
				var newVal smt.Term
				var doStore smt.Term = w
				switch ev.Kind {
				case EvLoad:
					cons = append(cons, c.Implies(w, c.Eq(ev.Res, cur)))
				case EvStore:
					newVal = ev.Val
				case EvAdd:
					newVal = c.Add(cur, ev.Val)
					cons = append(cons, c.Implies(w, c.Eq(ev.Res, newVal)))
				case EvSwap:
					newVal = ev.Val
					cons = append(cons, c.Implies(w, c.Eq(ev.Res, cur)))
				case EvCAS:
					ok := c.Eq(cur, ev.Old)
					cons = append(cons, c.Implies(w, c.Eq(ev.Res, ok)))
					newVal = ev.Val
					doStore = c.And(w, ok)
				}
				if newVal != nil {
					ncells := cells
					copied := false
					for _, cd := range ev.Cands {
						hit := c.And(doStore, offEq(ev, cd))
						if hit.IsFalse() {
							continue
						}
						if !copied {
							ncells = append([]smt.Term{}, cells...)
							copied = true
						}
						for ci, nv := range writeAt(cells, g, cd, ev.N, newVal) {
							ncells[ci] = c.Ite(hit, nv, ncells[ci])
						}
					}
					mem[ev.Obj] = ncells
				}
			}
		}
	}
	if os.Getenv("VERIF_DEBUG") != "" {
		for _, th := range e.Threads {
			hist := map[int]int{}
			for _, ev := range th.Events {
				hist[len(ev.Cands)]++
			}
			fmt.Fprintf(os.Stderr, "DEBUG thread %d candidate-set sizes: %v\n", th.ID, hist)
		}
	}
	e.Sched = append(e.Sched, cons...)
	// 4. all threads finished
	fin := c.True
	for _, th := range e.Threads {
		fin = c.And(fin, c.Eq(th.Cs[R-1], c.BV(uint64(len(th.Events)), csW)), th.EndG)
	}
	e.Finished = fin
	// 5. main continues on the final memory
	for _, r := range e.Regions {
		nb := &Bytes{N: r.Obj.N, Zero: true, Cells: map[int]smt.Term{}}
		for i := 0; i < r.Obj.N; i++ {
			nb.Cells[i] = byteAt(mem[r.Obj], gran[r.Obj], i)
		}
		st.Heap[r.Obj] = nb
		stats.Cells += r.Obj.N
	}
	// thread-local results: objects changed/created by threads are merged back leaf by leaf
	// (a leaf written by two threads is an error: such data must live in a shared region).
	for _, th := range e.Threads {
		fs := finals[th.ID]
		for o, v := range fs.Heap {
			if o.Shared != nil {
				continue
			}
			if _, isBase := baseHeap[o]; !isBase {
				st.Heap[o] = v
				continue
			}
			bv := baseHeap[o]
			if identical(bv, v) {
				continue
			}
			cur := st.Heap[o]
			bval, ok1 := bv.(Value)
			tval, ok2 := v.(Value)
			cval, ok3 := cur.(Value)
			if !ok1 || !ok2 || !ok3 {
				if identical(cur, bv) {
					st.Heap[o] = v
					continue
				}
				panic(e.unsupported(fmt.Sprintf("object %s written by several threads but not shared", o)))
			}
			st.Heap[o] = e.merge3(bval, cval, tval, o)
		}
	}
	// final values of shared Go cells and channels go back into the main heap
	for key, ev := range gocell {
		cur, ok := gomem[key]
		if !ok {
			continue
		}
		if ev.GoObj.Kind == KChan {
			e.chanFinal[ev.GoObj] = cur
			continue
		}
		content := st.Heap[ev.GoObj].(Value)
		st.Heap[ev.GoObj] = e.setPath(content, ev.GoPath, c.True, IntV{cur})
	}
	st.G = c.And(st.G, fin)
	e.Stats = stats
	e.ThreadsDone = append(e.ThreadsDone, e.Threads...)
	e.Threads = nil
}

func sameContent(a, b interface{}) bool {
	av, ok1 := a.(Value)
	bv, ok2 := b.(Value)
	if ok1 && ok2 {
		return sameValue(av, bv)
	}
	return false
}

// merge3 merges a thread's version t of an object into cur, relative to the common base.
func (e *Engine) merge3(base, cur, t Value, o *Obj, path ...int) Value {
	if sameValue(base, t) {
		return cur
	}
	if sameValue(base, cur) {
		return t
	}
	switch b := base.(type) {
	case StructV:
		cv, ok1 := cur.(StructV)
		tv, ok2 := t.(StructV)
		if ok1 && ok2 && len(cv.F) == len(b.F) && len(tv.F) == len(b.F) {
			out := make([]Value, len(b.F))
			for i := range out {
				out[i] = e.merge3(b.F[i], cv.F[i], tv.F[i], o, append(path, i)...)
			}
			return StructV{out}
		}
	case ArrayV:
		cv, ok1 := cur.(ArrayV)
		tv, ok2 := t.(ArrayV)
		if ok1 && ok2 && len(cv.E) == len(b.E) && len(tv.E) == len(b.E) {
			out := make([]Value, len(b.E))
			for i := range out {
				out[i] = e.merge3(b.E[i], cv.E[i], tv.E[i], o, append(path, i)...)
			}
			return ArrayV{out}
		}
	}
	panic(e.unsupported(fmt.Sprintf("object %s (%v) path %v: the same field is written by several threads but is not in a shared region", o, o.Typ, path)))
}

func goKey(o *Obj, path []Sel) string {
	var sb []byte
	sb = append(sb, fmt.Sprintf("%s#%d", o.Name, o.ID)...)
	for _, p := range path {
		if p.T != nil {
			return ""
		}
		sb = append(sb, fmt.Sprintf(".%d", p.I)...)
	}
	return string(sb)
}

// goCellAtomic: atomic operation on a scalar field of a pre-existing Go object.
func (e *Engine) goCellAtomic(st *State, kind string, alt PtrAlt, et types.Type, a, b Value, site string) Value {
	c := e.C
	key := goKey(alt.Obj, alt.Path)
	if key == "" {
		panic(e.unsupported("atomic on Go object field with symbolic path at " + site))
	}
	w, _, ok := intWidth(et)
	if !ok {
		panic(e.unsupported("atomic on non-integer Go field " + et.String() + " at " + site))
	}
	if e.atomicCells == nil {
		e.atomicCells = map[string]bool{}
	}
	e.atomicCells[key] = true
	ev := &Event{GoKey: key, GoObj: alt.Obj, GoPath: alt.Path, N: w / 8, Where: site, Atomic: true}
	tid := st.Th.ID
	switch kind {
	case "load":
		ev.Kind = EvLoad
		ev.Res = c.Fresh(fmt.Sprintf("gld_t%d", tid), w)
		e.addEvent(st, ev)
		return IntV{ev.Res}
	case "store":
		ev.Kind = EvStore
		ev.Val = a.(IntV).T
		e.addEvent(st, ev)
		return nil
	case "add":
		ev.Kind = EvAdd
		ev.Val = a.(IntV).T
		ev.Res = c.Fresh(fmt.Sprintf("gadd_t%d", tid), w)
		e.addEvent(st, ev)
		return IntV{ev.Res}
	case "swap":
		ev.Kind = EvSwap
		ev.Val = a.(IntV).T
		ev.Res = c.Fresh(fmt.Sprintf("gswp_t%d", tid), w)
		e.addEvent(st, ev)
		return IntV{ev.Res}
	case "cas":
		ev.Kind = EvCAS
		ev.Old = a.(IntV).T
		ev.Val = b.(IntV).T
		ev.Res = c.Fresh(fmt.Sprintf("gcas_t%d", tid), 0)
		e.addEvent(st, ev)
		return BoolV{ev.Res}
	}
	panic("goCellAtomic")
}

// chanEvent records a channel operation of a thread on a channel created before the spawn.
// Only the element count and the closed flag are modelled; received values are zero values.
func (e *Engine) chanEvent(st *State, kind EvKind, ch PtrV, site string) *Event {
	a, ok := ch.single()
	if !ok || a.Obj == nil || a.Obj.Kind != KChan {
		panic(e.unsupported("channel operation on nil/ambiguous channel at " + site))
	}
	ev := &Event{Kind: kind, GoKey: fmt.Sprintf("chan#%d", a.Obj.ID), GoObj: a.Obj, Cap: a.Obj.N, Where: site}
	if kind == EvChanTrySend || kind == EvChanTryRecv || kind == EvChanRecv {
		ev.Res = e.C.Fresh(fmt.Sprintf("ch_t%d", st.Th.ID), 0)
	}
	e.addEvent(st, ev)
	return ev
}

// composeGo applies one Go-cell / channel event under window guard w.
func (e *Engine) composeGo(st *State, ev *Event, w smt.Term, gomem map[string]smt.Term, cons *[]smt.Term) {
	c := e.C
	cur, ok := gomem[ev.GoKey]
	if !ok {
		if ev.GoObj.Kind == KChan {
			cc := st.Heap[ev.GoObj].(*ChanContent)
			cur = cc.Count
			gomem[ev.GoKey+"/closed"] = c.Ite(cc.Closed, c.BV(1, 32), c.BV(0, 32))
		} else {
			v := e.getPath(st.Heap[ev.GoObj].(Value), ev.GoPath, nil)
			cur = v.(IntV).T
		}
		gomem[ev.GoKey] = cur
	}
	add := func(t smt.Term) { *cons = append(*cons, t) }
	one := c.BV(1, 32)
	switch ev.Kind {
	case EvLoad:
		add(c.Implies(w, c.Eq(ev.Res, cur)))
	case EvStore:
		gomem[ev.GoKey] = c.Ite(w, ev.Val, cur)
	case EvAdd:
		nv := c.Add(cur, ev.Val)
		add(c.Implies(w, c.Eq(ev.Res, nv)))
		gomem[ev.GoKey] = c.Ite(w, nv, cur)
	case EvSwap:
		add(c.Implies(w, c.Eq(ev.Res, cur)))
		gomem[ev.GoKey] = c.Ite(w, ev.Val, cur)
	case EvCAS:
		okT := c.Eq(cur, ev.Old)
		add(c.Implies(w, c.Eq(ev.Res, okT)))
		gomem[ev.GoKey] = c.Ite(c.And(w, okT), ev.Val, cur)
	case EvChanSend:
		room := c.Ult(cur, c.BV(uint64(ev.Cap), 32))
		if ev.Cap == 0 {
			panic(e.unsupported("send on unbuffered channel between threads at " + ev.Where))
		}
		add(c.Implies(w, room))
		gomem[ev.GoKey] = c.Ite(w, c.Add(cur, one), cur)
	case EvChanTrySend:
		room := c.Ult(cur, c.BV(uint64(ev.Cap), 32))
		add(c.Implies(w, c.Eq(ev.Res, room)))
		gomem[ev.GoKey] = c.Ite(c.And(w, room), c.Add(cur, one), cur)
	case EvChanRecv:
		closed := c.Ne(gomem[ev.GoKey+"/closed"], c.BV(0, 32))
		has := c.Ne(cur, c.BV(0, 32))
		add(c.Implies(w, c.Or(has, closed)))
		add(c.Implies(w, c.Eq(ev.Res, has)))
		gomem[ev.GoKey] = c.Ite(c.And(w, has), c.Sub(cur, one), cur)
	case EvChanTryRecv:
		has := c.Ne(cur, c.BV(0, 32))
		add(c.Implies(w, c.Eq(ev.Res, has)))
		gomem[ev.GoKey] = c.Ite(c.And(w, has), c.Sub(cur, one), cur)
	case EvChanClose:
		gomem[ev.GoKey+"/closed"] = c.Ite(w, one, gomem[ev.GoKey+"/closed"])
	default:
		panic(e.unsupported("go-cell event kind"))
	}
}
