package sym

import (
	"fmt"
	"go/types"
	"strings"

	"golang.org/x/tools/go/ssa"

	"verif/engine/smt"
)

func (e *Engine) newInput(st *State, kind string, w int) smt.Term {
	name := fmt.Sprintf("in%d_%s", len(e.Inputs), kind)
	var t smt.Term
	t = e.C.Var(name, w)
	e.Inputs = append(e.Inputs, &Input{Name: name, T: t, W: w, Kind: kind, UnderSymbolicControl: !st.G.IsConst() && false})
	return t
}

func constInt(v Value) (int, bool) {
	iv, ok := v.(IntV)
	if !ok || !iv.T.IsConst() {
		return 0, false
	}
	return int(iv.T.SVal()), true
}

func constStr(v Value) (string, bool) {
	sv, ok := v.(StringV)
	if !ok || sv.S == nil {
		return "", false
	}
	return *sv.S, true
}

// intrinsic handles harness intrinsics and modelled library functions.
func (e *Engine) intrinsic(st *State, fn *ssa.Function, full string, args []Value, site string) (Value, bool) {
	c := e.C
	name := fn.Name()
	if fn.Pkg == e.Pkg && strings.HasPrefix(name, "vf") && len(fn.Blocks) == 0 {
		switch name {
		case "vfU8":
			return IntV{e.newInput(st, "u8", 8)}, true
		case "vfU16":
			return IntV{e.newInput(st, "u16", 16)}, true
		case "vfU32":
			return IntV{e.newInput(st, "u32", 32)}, true
		case "vfU64":
			return IntV{e.newInput(st, "u64", 64)}, true
		case "vfInt":
			return IntV{e.newInput(st, "int", 64)}, true
		case "vfBool":
			return BoolV{e.newInput(st, "bool", 0)}, true
		case "vfAssume":
			e.assume(st, args[0].(BoolV).T)
			return nil, true
		case "vfAssert":
			id, _ := constStr(args[1])
			e.fail(st, c.Not(args[0].(BoolV).T), id, site)
			return nil, true
		case "vfCover":
			id, _ := constStr(args[0])
			th, ev := e.evIdx(st)
			e.Covers = append(e.Covers, &CoverPt{ID: id, Cond: st.G, Thread: th, EvIdx: ev})
			return nil, true
		case "vfShape":
			nm, _ := constStr(args[0])
			lo, ok1 := constInt(args[1])
			hi, ok2 := constInt(args[2])
			if !ok1 || !ok2 {
				panic(e.unsupported("vfShape with non-constant range"))
			}
			// make the name unique per dynamic occurrence
			e.shapeSeq[nm]++
			key := fmt.Sprintf("%s#%d", nm, e.shapeSeq[nm])
			v, ok := e.Shape[key]
			if !ok {
				panic(&ShapeRequest{Name: key, Lo: lo, Hi: hi})
			}
			e.ShapeLog = append(e.ShapeLog, fmt.Sprintf("%s=%d", key, v))
			return IntV{c.BV(uint64(int64(v)), 64)}, true
		case "vfBytes":
			n, ok := constInt(args[0])
			if !ok {
				panic(e.unsupported("vfBytes with non-constant length"))
			}
			o := e.allocBytes(st, n, false, "in")
			b := st.Heap[o].(*Bytes)
			for i := 0; i < n; i++ {
				b.Cells[i] = e.newInput(st, "byte", 8)
			}
			nn := c.BV(uint64(n), 64)
			return SliceV{P: mkPtr(c, o, Sel{I: 0}), Len: nn, Cap: nn}, true
		case "vfHavocBytes":
			sv := args[0].(SliceV)
			a, ok := sv.P.single()
			if !ok || a.Obj == nil || a.Obj.Kind != KBytes || !sv.Len.IsConst() || a.Path[len(a.Path)-1].T != nil {
				panic(e.unsupported("vfHavocBytes needs a concrete byte slice"))
			}
			b := st.Heap[a.Obj].(*Bytes).clone()
			st.Heap[a.Obj] = b
			off := a.Path[len(a.Path)-1].I
			for i := 0; i < int(sv.Len.Val); i++ {
				b.Cells[off+i] = e.newInput(st, "byte", 8)
			}
			return nil, true
		case "vfAlign":
			sv := args[0].(SliceV)
			a, _ := sv.P.single()
			n, _ := constInt(args[1])
			e.AlignHint[a.Obj] = n
			return nil, true
		case "vfNote":
			s, _ := constStr(args[0])
			e.Notes = append(e.Notes, s)
			return nil, true
		case "vfShared":
			e.markShared(st, args[0].(SliceV), args[1], site)
			return nil, true
		case "vfSpawn":
			e.spawn(st, args[0].(FuncV), site)
			return nil, true
		case "vfStallHook":
			a, ok := args[0].(SliceV).P.single()
			cut, ok2 := constInt(args[1])
			if !ok || !ok2 || a.Obj == nil {
				panic(e.unsupported("vfStallHook needs a region and a constant cut"))
			}
			e.hookObj = a.Obj
			e.hookFn = args[2].(FuncV)
			e.hookCnt = e.allocVal(st, types.Typ[types.Int64], IntV{c.BV(uint64(cut), 64)}, "hookcnt")
			return nil, true
		case "vfSyncHook":
			cut, ok := constInt(args[0])
			if !ok {
				panic(e.unsupported("vfSyncHook needs a constant cut"))
			}
			e.hookObj, e.hookSync = nil, true
			e.hookFn = args[1].(FuncV)
			e.hookCnt = e.allocVal(st, types.Typ[types.Int64], IntV{c.BV(uint64(cut), 64)}, "hookcnt")
			return nil, true
		case "vfStallHookOff":
			e.hookObj, e.hookSync = nil, false
			e.hookCnt = nil
			return nil, true
		case "vfSpawnCut":
			cut, ok := constInt(args[1])
			if !ok {
				panic(e.unsupported("vfSpawnCut with non-constant cut"))
			}
			e.spawnCut(st, args[0].(FuncV), cut, site)
			return nil, true
		case "vfSpawnAtomic":
			e.spawnAtomic(st, args[0].(FuncV), site)
			return nil, true
		case "vfJoin":
			e.join(st, site)
			return nil, true
		case "vfAtomicBegin":
			e.atomicMark(st, true)
			return nil, true
		case "vfAtomicEnd":
			e.atomicMark(st, false)
			return nil, true
		case "vfYield":
			return nil, true
		case "vfRunGoroutines":
			if e.GoPolicy == "coro" {
				e.runCoros(st)
				return nil, true
			}
			e.runDeferredGo(st)
			return nil, true
		case "vfRaceBegin":
			t, _ := constInt(args[0])
			e.raceBegin(t)
			return nil, true
		case "vfRaceEnd":
			e.raceEnd()
			return nil, true
		case "vfRaceCheck":
			id, _ := constStr(args[0])
			e.raceCheck(st, id, site)
			return nil, true
		case "vfInfeasibleOK":
			e.InfeasibleOK = true
			return nil, true
		case "vfPrune":
			panic(&PruneCase{})
		case "vfSameObject":
			// do two byte slices denote the same region?
			same := c.False
			for _, aa := range args[0].(SliceV).P.Alts {
				for _, bb := range args[1].(SliceV).P.Alts {
					if aa.Obj != nil && aa.Obj == bb.Obj {
						same = c.Or(same, c.And(aa.G, bb.G))
					}
				}
			}
			return BoolV{same}, true
		case "vfOffsetOf":
			// byte offset of slice start inside its region
			a, ok := args[0].(SliceV).P.single()
			if !ok || a.Obj == nil {
				return IntV{c.BV(^uint64(0), 64)}, true
			}
			return IntV{selTerm(c, a.Path[len(a.Path)-1])}, true
		case "vfOffsetIn":
			// byte offset of slice a inside the region that slice r starts at; -1 if elsewhere
			res := c.BV(^uint64(0), 64)
			for _, ra := range args[1].(SliceV).P.Alts {
				if ra.Obj == nil {
					continue
				}
				for _, aa := range args[0].(SliceV).P.Alts {
					if aa.Obj != ra.Obj {
						continue
					}
					d := c.Sub(selTerm(c, aa.Path[len(aa.Path)-1]), selTerm(c, ra.Path[len(ra.Path)-1]))
					res = c.Ite(c.And(aa.G, ra.G), d, res)
				}
			}
			return IntV{res}, true
		case "vfOffsetOfPtr":
			a, ok := args[0].(PtrV).single()
			if !ok || a.Obj == nil {
				return IntV{c.BV(^uint64(0), 64)}, true
			}
			return IntV{selTerm(c, a.Path[len(a.Path)-1])}, true
		}
		panic(e.unsupported("unknown intrinsic " + name))
	}
	if v, ok := e.libModel(st, fn, full, args, site); ok {
		return v, true
	}
	return nil, false
}

func (e *Engine) builtin(st *State, b *ssa.Builtin, cc *ssa.CallCommon, args []Value, where string) Value {
	c := e.C
	switch b.Name() {
	case "len":
		switch x := args[0].(type) {
		case SliceV:
			return IntV{x.Len}
		case StringV:
			return IntV{e.stringView(x).Len}
		case PtrV: // map or chan
			if len(x.Alts) > 1 {
				n := c.BV(0, 64)
				for _, al := range x.Alts {
					if al.Obj != nil && al.Obj.Kind == KMap {
						n = c.Ite(al.G, e.mapLen(st, al.Obj), n)
					} else if al.Obj != nil {
						panic(e.unsupported("len of merged channel"))
					}
				}
				return IntV{n}
			}
			a, ok := x.single()
			if ok && a.Obj != nil && a.Obj.Kind == KMap {
				return IntV{e.mapLen(st, a.Obj)}
			}
			if ok && a.Obj != nil && a.Obj.Kind == KChan {
				if t, fin := e.chanFinal[a.Obj]; fin && st.Th == nil {
					return IntV{c.ZExt(t, 64)}
				}
				ch := st.Heap[a.Obj].(*ChanContent)
				return IntV{c.ZExt(ch.Count, 64)}
			}
			if ok && a.Obj == nil {
				return IntV{c.BV(0, 64)}
			}
		case ArrayV:
			return IntV{c.BV(uint64(len(x.E)), 64)}
		}
	case "cap":
		switch x := args[0].(type) {
		case SliceV:
			return IntV{x.Cap}
		case PtrV:
			a, ok := x.single()
			if ok && a.Obj != nil && a.Obj.Kind == KChan {
				return IntV{c.BV(uint64(a.Obj.N), 64)}
			}
		}
	case "append":
		return e.appendOp(st, args[0].(SliceV), args[1], cc.Args[0].Type(), where)
	case "copy":
		dst := args[0].(SliceV)
		var src SliceV
		switch x := args[1].(type) {
		case SliceV:
			src = x
		case StringV:
			v := e.stringView(x)
			src = SliceV{P: v.P, Len: v.Len, Cap: v.Len}
		}
		n := c.Ite(c.Ult(dst.Len, src.Len), dst.Len, src.Len)
		max := e.maxLen(st, n, where)
		e.copyRange(st, dst, src, n, max, where)
		return IntV{n}
	case "delete":
		e.mapDelete(st, args[0].(PtrV), args[1], where)
		return nil
	case "close":
		e.chanClose(st, args[0].(PtrV), where)
		return nil
	case "recover":
		return IfaceV{Alts: []IfaceAlt{{G: c.True}}}
	case "print", "println":
		return nil
	case "ssa:wrapnilchk":
		return args[0]
	}
	panic(e.unsupported(fmt.Sprintf("builtin %s on %T at %s", b.Name(), args[0], where)))
}

// maxLen finds a concrete upper bound for a length term (constant, or bounded by MaxMake).
func (e *Engine) maxLen(st *State, n smt.Term, where string) int {
	if n.IsConst() {
		return int(n.Val)
	}
	if ub, ok := e.upperBound(n); ok && ub <= 1<<16 {
		return int(ub)
	}
	m := e.Opts.MaxMake
	e.boundAssume(st, e.C.Ule(n, e.C.BV(uint64(m), 64)), fmt.Sprintf("length <= %d at %s", m, where))
	return m
}

// upperBound: cheap syntactic upper bound of an unsigned term.
func (e *Engine) upperBound(t smt.Term) (uint64, bool) {
	switch t.Op {
	case smt.OpConst:
		return t.Val, true
	case smt.OpIte:
		a, ok1 := e.upperBound(t.Args[1])
		b, ok2 := e.upperBound(t.Args[2])
		if ok1 && ok2 {
			if a > b {
				return a, true
			}
			return b, true
		}
	case smt.OpZExt:
		if t.Args[0].W <= 16 {
			return (1 << uint(t.Args[0].W)) - 1, true
		}
		return e.upperBound(t.Args[0])
	}
	return 0, false
}

func (e *Engine) appendOp(st *State, s SliceV, more Value, sliceT types.Type, where string) Value {
	c := e.C
	var src SliceV
	switch x := more.(type) {
	case SliceV:
		src = x
	case StringV:
		v := e.stringView(x)
		src = SliceV{P: v.P, Len: v.Len, Cap: v.Len}
	default:
		panic(e.unsupported("append of non-slice"))
	}
	newLen := c.Add(s.Len, src.Len)
	// in place when it fits (Go semantics); otherwise a fresh backing store of exactly newLen
	// (Go over-allocates; capacity beyond newLen is unobservable except through cap()).
	fits := c.Ule(newLen, s.Cap)
	max := e.maxLen(st, src.Len, where)
	if fits.IsTrue() {
		dst := SliceV{P: e.indexAddrRaw(s.P, s.Len), Len: src.Len, Cap: src.Len}
		e.copyRange(st, dst, src, src.Len, max, where)
		return SliceV{P: s.P, Len: newLen, Cap: s.Cap}
	}
	// grow path: allocate and copy both
	oldMax := e.maxLen(st, s.Len, where)
	total := oldMax + max
	st2 := sliceT.Underlying().(*types.Slice)
	var nobj *Obj
	if isByte(st2.Elem()) {
		nobj = e.allocBytes(st, total, true, "app")
	} else {
		el := make([]Value, total)
		z := e.zero(st2.Elem())
		for i := range el {
			el[i] = z
		}
		nobj = e.allocVal(st, types.NewArray(st2.Elem(), int64(total)), ArrayV{el}, "app")
		nobj.N = total
	}
	grown := SliceV{P: mkPtr(c, nobj, Sel{I: 0}), Len: newLen, Cap: c.BV(uint64(total), 64)}
	if fits.IsFalse() {
		e.copyRange(st, SliceV{P: grown.P, Len: s.Len, Cap: s.Len}, s, s.Len, oldMax, where)
		e.copyRange(st, SliceV{P: e.indexAddrRaw(grown.P, s.Len), Len: src.Len, Cap: src.Len}, src, src.Len, max, where)
		return grown
	}
	// symbolic choice: do both under guards
	inPlace := &State{G: c.And(st.G, fits), Heap: cloneHeap(st.Heap), Th: st.Th}
	dst := SliceV{P: e.indexAddrRaw(s.P, s.Len), Len: src.Len, Cap: src.Len}
	e.copyRange(inPlace, dst, src, src.Len, max, where)
	grow := &State{G: c.And(st.G, c.Not(fits)), Heap: st.Heap, Th: st.Th}
	e.copyRange(grow, SliceV{P: grown.P, Len: s.Len, Cap: s.Len}, s, s.Len, oldMax, where)
	e.copyRange(grow, SliceV{P: e.indexAddrRaw(grown.P, s.Len), Len: src.Len, Cap: src.Len}, src, src.Len, max, where)
	res := e.Merge(fits, SliceV{P: s.P, Len: newLen, Cap: s.Cap}, grown)
	m := e.mergeStates(inPlace, grow)
	st.G, st.Heap = m.G, m.Heap
	return res
}
