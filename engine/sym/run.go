package sym

import (
	"fmt"
	"go/types"
	"sort"
	"strings"
	"time"

	"golang.org/x/tools/go/ssa"

	"verif/engine/smt"
)

// CaseResult is the outcome of one shape case of one harness.
type CaseResult struct {
	Harness       string
	Shape         []string
	Verdict       string // "pass", "violation", "inconclusive", "known"
	Reason        string
	Violations    []*ViolationInfo
	Obligations   int
	Discharged    int
	Covers        int
	CoversSat     int
	CoverIDs      []string
	Unwinds       int
	UnwindsOK     bool
	Queries       map[string]int // verdict -> count
	SolverSec     float64
	ExecSec       float64
	Funcs         map[string]int
	Stubs         map[string]int
	Notes         []string
	Inputs        int
	Events        []int
	Rounds        int
	Nodes         int
	Sample        map[string]interface{}
	Hints         int
	Folded        int
	ObligationIDs map[string]int
}

type StepInfo struct {
	File string
	Line int
}

type ViolationInfo struct {
	Steps      [][]StepInfo // per thread: shared-access steps (statement lines) in program order
	Quota      [][]int      // per thread, per round: number of steps
	Aligned    bool         // no context switch falls inside a statement
	Also       []string     // other obligations violated in the same model
	Finished   []bool       // per thread: ran to completion in the model
	HookFile   string       // stall-hook harnesses: the adversary ran before the HookOcc-th execution of this line
	HookLine   int
	HookOcc    int
	HookAtomic bool
	ID         string
	Where      string
	Model      map[string]uint64
	Inputs     []InputVal
	Sched      [][]uint64 // per thread cs positions
	Trace      []string
	Known      string
}

type InputVal struct {
	Name string
	Kind string
	Val  uint64
}

type RunOpts struct {
	Opts
	Rounds         int
	GoPolicy       string
	SwitchHook     string
	CoroRot        int
	AlsoProps      []string // assertions tagged for these properties count as this check's too
	Prop           string   // property id: assertions tagged for another property ("Cnn.") are not this check's
	Solver         string   // primary backend
	Alt            string   // secondary backend (cross-check / fallback)
	TimeoutMs      int
	CrossCheck     bool
	KnownPredicate func(id string) bool
}

// RunCase executes a harness under a fixed shape assignment. Returns a *ShapeRequest when the
// harness asks for an unassigned shape variable.
func RunCase(prog *ssa.Program, pkg *ssa.Package, harness string, shape map[string]int, ro RunOpts, solvers []*smt.Solver) (res *CaseResult, req *ShapeRequest, err error) {
	e := NewEngine(prog, pkg, ro.Opts)
	e.Rounds = ro.Rounds
	e.GoPolicy = ro.GoPolicy
	e.SwitchHook = ro.SwitchHook
	e.CoroRot = ro.CoroRot
	for k, v := range shape {
		e.Shape[k] = v
	}
	if ro.Opts.PruneTimeout > 0 {
		e.Solver = solvers[0]
	}
	for _, s := range solvers {
		s.Reset()
	}
	res = &CaseResult{Harness: harness, Queries: map[string]int{}, Funcs: map[string]int{}, Stubs: map[string]int{}, ObligationIDs: map[string]int{}}
	t0 := time.Now()
	var st *State
	pruned := false
	func() {
		defer e.killCoros()
		defer func() {
			if r := recover(); r != nil {
				switch x := r.(type) {
				case *ShapeRequest:
					req = x
				case *PruneCase:
					pruned = true
				case *Unsupported:
					err = x
				case error:
					if u, ok := x.(*Unsupported); ok {
						err = u
					} else {
						panic(r)
					}
				default:
					panic(r)
				}
			}
		}()
		st = &State{G: e.C.True, Heap: map[*Obj]interface{}{}}
		e.runInit(st)
		hf := pkg.Func(harness)
		if hf == nil {
			panic(e.unsupported("harness " + harness + " not found"))
		}
		e.callFunction(st, hf, nil, nil, "harness")
	}()
	res.ExecSec = time.Since(t0).Seconds()
	res.Shape = e.ShapeLog
	if req != nil {
		return nil, req, nil
	}
	prunedLate := false
	if pruned {
		// A case the harness declares outside its space is dropped - unless an assertion has
		// already failed for certain (its condition folded to true) on the way there: the history
		// up to that assertion is a legal one, so the failure stands.
		for _, o := range e.Obls {
			if o.Cond.IsTrue() {
				prunedLate = true
			}
		}
		if !prunedLate {
			res.Verdict = "pruned"
			return res, nil, nil
		}
		st = &State{G: e.C.False, Heap: map[*Obj]interface{}{}}
	}
	if err != nil {
		res.Verdict = "inconclusive"
		res.Reason = err.Error()
		return res, nil, nil
	}
	for fn, n := range e.Encoded {
		res.Funcs[fn.String()] = n
	}
	for k, v := range e.StubsUsed {
		res.Stubs[k] = v
	}
	res.Notes = dedup(e.Notes)
	res.Inputs = len(e.Inputs)
	res.Events = e.Stats.EventsPerThr
	res.Rounds = e.Stats.Rounds
	res.Hints = len(e.Hints)

	c := e.C
	base := append([]smt.Term{}, e.Sched...)
	base = append(base, e.Hints...)
	thr := map[int]*Thread{}
	for _, th := range e.ThreadsDone {
		thr[th.ID] = th
	}
	reached := func(th, ev int) smt.Term {
		if th < 0 {
			return c.True
		}
		t := thr[th]
		if t == nil || len(t.Cs) == 0 {
			return c.True
		}
		return c.Uge(t.Cs[len(t.Cs)-1], c.BV(uint64(ev), t.Cs[0].W))
	}
	check := func(asserts []smt.Term, want []smt.Term) (smt.Result, map[string]uint64) {
		all := append(append([]smt.Term{}, base...), asserts...)
		trivial := true
		for _, a := range all {
			if !a.IsTrue() {
				trivial = false
				break
			}
		}
		if trivial {
			res.Queries["sat"]++
			res.Queries["by:constant-folding"]++
			return smt.Sat, map[string]uint64{}
		}
		r, m, who := Race(solvers, all, want, ro.TimeoutMs, ro.CrossCheck, &res.Notes)
		res.Queries[r.String()]++
		if who != "" {
			res.Queries["by:"+who]++
		}
		return r, m
	}

	// model variables: inputs + schedule
	var mvars []smt.Term
	for _, in := range e.Inputs {
		mvars = append(mvars, in.T)
	}
	for _, th := range e.ThreadsDone {
		mvars = append(mvars, th.Cs...)
	}

	res.Obligations = len(e.Obls)
	for _, o := range e.Obls {
		res.ObligationIDs[o.ID]++
	}
	// assertion instances decided by constant folding count as obligations discharged by the
	// simplifier (tagged ones of other properties excluded below like the recorded ones)
	for id, n := range e.FoldedIDs {
		if ro.Prop != "" && isForeignID(id, ro.Prop, ro.AlsoProps...) {
			continue
		}
		res.Obligations += n
		res.Discharged += n
		res.Folded += n
		res.ObligationIDs[id] += n
	}
	inconclusive := ""
	// 1. obligations. Assertions tagged for another property ("Cnn.") are not this check's. Two
	// groups (the property's own assertions first, then the validity checks: panics, raw-pointer
	// range, alignment, blocking); each group is asked as one disjunction and split in halves on
	// "unknown". A satisfiable disjunction yields a model in which the violated obligations are
	// identified by evaluation; the earliest one is reported.
	if len(e.Obls) > 0 {
		conds := make([]smt.Term, len(e.Obls))
		for i, o := range e.Obls {
			conds[i] = c.And(o.Cond, reached(o.Thread, o.EvIdx))
		}
		isValidity := func(id string) bool {
			return strings.HasPrefix(id, "nopanic:") || strings.HasPrefix(id, "rawptr:") || strings.HasPrefix(id, "aligned:") || strings.HasPrefix(id, "noblock:")
		}
		foreign := func(id string) bool { return ro.Prop != "" && isForeignID(id, ro.Prop, ro.AlsoProps...) }
		var propIdx, valIdx []int
		for i, o := range e.Obls {
			if foreign(o.ID) {
				res.Obligations--
				res.ObligationIDs[o.ID]--
				if res.ObligationIDs[o.ID] == 0 {
					delete(res.ObligationIDs, o.ID)
				}
				continue
			}
			if conds[i].IsFalse() {
				res.Discharged++
				continue
			}
			if isValidity(o.ID) {
				valIdx = append(valIdx, i)
			} else {
				propIdx = append(propIdx, i)
			}
		}
		found := false
		var solveGroup func(idx []int)
		solveGroup = func(idx []int) {
			if found || len(idx) == 0 {
				return
			}
			var ds []smt.Term
			for _, i := range idx {
				ds = append(ds, conds[i])
			}
			r, m := check([]smt.Term{c.Or(ds...)}, c.Vars)
			switch r {
			case smt.Unsat:
				res.Discharged += len(idx)
			case smt.Sat:
				memo := map[int]uint64{}
				pick := -1
				for _, i := range idx {
					if smt.Eval(conds[i], m, memo) == 1 {
						pick = i
						break
					}
				}
				if pick < 0 {
					inconclusive = "model does not satisfy any obligation of a satisfiable group (engine error)"
					return
				}
				for _, i := range valIdx {
					if i < pick && smt.Eval(conds[i], m, memo) == 1 {
						pick = i
						break
					}
				}
				o := e.Obls[pick]
				found = true
				v := &ViolationInfo{ID: o.ID, Where: fmt.Sprintf("%s [thread %d after event %d]", o.Where, o.Thread, o.EvIdx), Model: m}
				for _, in := range e.Inputs {
					v.Inputs = append(v.Inputs, InputVal{in.Name, in.Kind, m[in.T.Name]})
				}
				for _, th := range e.ThreadsDone {
					var row []uint64
					for _, cs := range th.Cs {
						if cs.IsConst() {
							row = append(row, cs.Val)
						} else {
							row = append(row, m[cs.Name])
						}
					}
					v.Sched = append(v.Sched, row)
				}
				v.Trace = e.renderTrace(m)
				for _, hf := range e.HookFires {
					if smt.Eval(hf.G, m, memo) == 1 {
						v.HookFile, v.HookLine = parseWhere(hf.Where)
						v.HookOcc = hf.Occ
						v.HookAtomic = hf.Atomic
						v.Trace = append(v.Trace, fmt.Sprintf("adversary ran before execution %d of the access at %s", hf.Occ, hf.Where))
					}
				}
				if len(e.ThreadsDone) > 0 {
					e.scheduleSteps(v, m, conds[pick], check)
				}
				for _, i := range idx {
					if i != pick && smt.Eval(conds[i], m, memo) == 1 {
						v.Trace = append(v.Trace, "also violated in this model: "+e.Obls[i].ID+" at "+e.Obls[i].Where)
						v.Also = append(v.Also, e.Obls[i].ID)
					}
				}
				res.Violations = append(res.Violations, v)
			default:
				if len(idx) == 1 {
					o := e.Obls[idx[0]]
					inconclusive = "solver unknown on obligation " + o.ID + " at " + o.Where
					return
				}
				h := len(idx) / 2
				solveGroup(idx[:h])
				solveGroup(idx[h:])
			}
		}
		solveGroup(propIdx)
		solveGroup(valIdx)
	}
	// 2. covers
	infeasible := false
	res.Covers = len(e.Covers)
	for _, cv := range e.Covers {
		r, m := check([]smt.Term{c.And(cv.Cond, reached(cv.Thread, cv.EvIdx))}, mvars)
		if r == smt.Sat {
			res.CoversSat++
			res.CoverIDs = append(res.CoverIDs, cv.ID)
			if res.Sample == nil && m != nil {
				res.Sample = map[string]interface{}{"cover": cv.ID}
				ins := map[string]uint64{}
				for i, in := range e.Inputs {
					if i < 24 {
						ins[in.Name] = m[in.T.Name]
					}
				}
				res.Sample["inputs"] = ins
				var sched [][]uint64
				for _, th := range e.ThreadsDone {
					var row []uint64
					for _, cs := range th.Cs {
						row = append(row, m[cs.Name])
					}
					sched = append(sched, row)
				}
				if len(sched) > 0 {
					res.Sample["schedule"] = sched
				}
			}
		} else if r == smt.Unknown {
			inconclusive = "solver unknown on cover " + cv.ID
		} else {
			if strings.HasPrefix(cv.ID, "opt:") {
				res.Covers--
			} else if e.InfeasibleOK {
				infeasible = true
			} else {
				inconclusive = "cover point unreachable (vacuous harness): " + cv.ID
			}
		}
	}
	// 3. unwinding assertions
	res.Unwinds = len(e.Unwinds)
	res.UnwindsOK = true
	if len(e.Unwinds) > 0 {
		var conds []smt.Term
		for _, u := range e.Unwinds {
			conds = append(conds, c.And(u.Cond, reached(u.Thread, u.EvIdx)))
		}
		r, _ := check([]smt.Term{c.Or(conds...)}, nil)
		if r != smt.Unsat {
			res.UnwindsOK = false
			names := map[string]bool{}
			for i, u := range e.Unwinds {
				ri, _ := check([]smt.Term{conds[i]}, nil)
				if ri != smt.Unsat {
					names[fmt.Sprintf("%s>%d(%s)", u.Loop, u.Bound, ri)] = true
				}
			}
			var ns []string
			for n := range names {
				ns = append(ns, n)
			}
			sort.Strings(ns)
			if len(ns) > 0 {
				inconclusive = "unwinding assertion failed: " + strings.Join(ns, ",")
			} else {
				res.UnwindsOK = true
			}
		}
	}
	for _, sv := range solvers {
		res.SolverSec += sv.Seconds
	}
	res.Nodes = c.NumNodes()
	switch {
	case infeasible && len(res.Violations) == 0:
		// the harness allows this shape assignment to be infeasible (e.g. an operation sequence
		// that cannot happen): it is not part of the explored space
		res.Verdict = "pruned"
	case len(res.Violations) > 0:
		res.Verdict = "violation"
	case inconclusive != "":
		res.Verdict = "inconclusive"
		res.Reason = inconclusive
	default:
		res.Verdict = "pass"
	}
	return res, nil, nil
}

// isForeignID: the assertion is tagged for another property ("Cnn." possibly behind an "F-…/" prefix)
func isForeignID(id, prop string, also ...string) bool {
	if strings.HasPrefix(id, "F-") {
		if i := strings.IndexByte(id, '/'); i > 0 {
			id = id[i+1:]
		}
	}
	if len(id) > 4 && id[0] == 'C' && id[3] == '.' && id[1] >= '0' && id[1] <= '9' && id[2] >= '0' && id[2] <= '9' {
		if id[:3] == prop {
			return false
		}
		for _, a := range also {
			if id[:3] == a {
				return false
			}
		}
		return true
	}
	return false
}

func dedup(xs []string) []string {
	seen := map[string]bool{}
	var out []string
	for _, x := range xs {
		if !seen[x] {
			seen[x] = true
			out = append(out, x)
		}
	}
	return out
}

// renderTrace lists the executed events in schedule order under a model.
func (e *Engine) renderTrace(m map[string]uint64) []string {
	var out []string
	if len(e.ThreadsDone) == 0 {
		return nil
	}
	memo := map[int]uint64{}
	R := len(e.ThreadsDone[0].Cs)
	for r := 0; r < R; r++ {
		for _, th := range e.ThreadsDone {
			csVal := func(t smt.Term) uint64 {
				if t.IsConst() {
					return t.Val
				}
				return m[t.Name]
			}
			lo := uint64(0)
			if r > 0 {
				lo = csVal(th.Cs[r-1])
			}
			hi := csVal(th.Cs[r])
			for i := lo; i < hi && int(i) < len(th.Events); i++ {
				ev := th.Events[i]
				if smt.Eval(ev.G, m, memo) == 0 {
					continue
				}
				if ev.Kind == EvBegin || ev.Kind == EvEnd {
					continue
				}
				line := fmt.Sprintf("r%d t%d #%d %s", r, th.ID, ev.Idx, evName[ev.Kind])
				if ev.Obj != nil {
					off := uint64(ev.Off.I)
					if ev.Off.T != nil {
						off = smt.Eval(ev.Off.T, m, memo)
					}
					line += fmt.Sprintf(" %s%d+%d/%d", ev.Obj.Name, ev.Obj.ID, off, ev.N)
				}
				if ev.Lock != "" {
					line += " " + ev.Lock
				}
				if ev.Old != nil {
					line += fmt.Sprintf(" old=%d", smt.Eval(ev.Old, m, memo))
				}
				if ev.Val != nil {
					line += fmt.Sprintf(" val=%d", smt.Eval(ev.Val, m, memo))
				}
				if ev.Res != nil {
					line += fmt.Sprintf(" -> %d", m[ev.Res.Name])
				}
				line += " @" + ev.Where
				out = append(out, line)
			}
		}
	}
	return out
}

// runInit executes the package initialiser so that package-level variables have their values.
func (e *Engine) runInit(st *State) {
	initFn := e.Pkg.Func("init")
	if initFn == nil {
		return
	}
	e.inInit = true
	defer func() { e.inInit = false }()
	// execute the init function block by block, skipping calls to other packages' init
	e.callFunction(st, initFn, nil, nil, "init")
	_ = types.Typ
}

// Race asks every solver concurrently and returns the first definite answer; the others are
// interrupted. With cross=true it waits for a second definite answer and reports disagreement
// as Unknown.
func Race(solvers []*smt.Solver, asserts []smt.Term, want []smt.Term, timeoutMs int, cross bool, notes *[]string) (smt.Result, map[string]uint64, string) {
	if len(solvers) == 1 {
		r, m, err := solvers[0].Check(asserts, want, timeoutMs)
		if err != nil {
			*notes = append(*notes, "solver: "+err.Error())
		}
		return r, m, solvers[0].B.Name
	}
	type ans struct {
		r   smt.Result
		m   map[string]uint64
		err error
		i   int
	}
	ch := make(chan ans, len(solvers))
	cancels := make([]chan struct{}, len(solvers))
	for i, s := range solvers {
		cancels[i] = make(chan struct{})
		s.Cancel = cancels[i]
	}
	for i, s := range solvers {
		go func(i int, s *smt.Solver) {
			r, m, err := s.Check(asserts, want, timeoutMs)
			ch <- ans{r, m, err, i}
		}(i, s)
	}
	var first *ans
	got := 0
	need := 1
	if cross {
		need = 2
	}
	definite := 0
	var res ans
	res.r = smt.Unknown
	interrupted := false
	for got < len(solvers) {
		a := <-ch
		got++
		if a.err != nil && !interrupted {
			*notes = append(*notes, "solver "+solvers[a.i].B.Name+": "+a.err.Error())
		}
		if a.r != smt.Unknown && !interrupted {
			definite++
			if first == nil {
				aa := a
				first = &aa
				res = a
			} else if a.r != first.r {
				*notes = append(*notes, fmt.Sprintf("SOLVER DISAGREEMENT %s=%s %s=%s", solvers[first.i].B.Name, first.r, solvers[a.i].B.Name, a.r))
				res.r = smt.Unknown
			}
			if definite >= need && !interrupted {
				interrupted = true
				for j, s := range solvers {
					if j != a.i && (first == nil || j != first.i) {
						close(cancels[j])
						s.Interrupt()
					}
				}
			}
		}
	}
	who := ""
	if first != nil {
		who = solvers[first.i].B.Name
	}
	return res.r, res.m, who
}

func parseWhere(w string) (string, int) {
	// "file.go:123" possibly followed by "(fn)"
	i := strings.IndexByte(w, ':')
	if i < 0 {
		return w, 0
	}
	j := i + 1
	n := 0
	for j < len(w) && w[j] >= '0' && w[j] <= '9' {
		n = n*10 + int(w[j]-'0')
		j++
	}
	return w[:i], n
}

// scheduleSteps derives, from a model, the per-thread list of statement-level steps and the
// per-round quotas; if a context switch falls inside a statement it asks for another model of the
// same violation whose switches are statement-aligned (a few attempts).
func (e *Engine) scheduleSteps(v *ViolationInfo, m map[string]uint64, cond smt.Term, check func([]smt.Term, []smt.Term) (smt.Result, map[string]uint64)) {
	c := e.C
	var extra []smt.Term
	for attempt := 0; attempt < 6; attempt++ {
		memo := map[int]uint64{}
		v.Steps, v.Quota, v.Finished = nil, nil, nil
		aligned := true
		for _, th := range e.ThreadsDone {
			R := len(th.Cs)
			csv := make([]uint64, R)
			for r, cs := range th.Cs {
				if cs.IsConst() {
					csv[r] = cs.Val
				} else {
					csv[r] = m[cs.Name]
				}
			}
			type step struct {
				first, last int
				file        string
				line        int
			}
			var steps []step
			for i, ev := range th.Events {
				if uint64(i) >= csv[R-1] {
					break
				}
				if ev.Kind == EvBegin || ev.Kind == EvEnd || smt.Eval(ev.G, m, memo) == 0 {
					continue
				}
				f, l := parseWhere(ev.Where)
				if n := len(steps); n > 0 && steps[n-1].file == f && steps[n-1].line == l {
					steps[n-1].last = i
					continue
				}
				steps = append(steps, step{i, i, f, l})
			}
			var si []StepInfo
			quota := make([]int, R)
			for _, s := range steps {
				si = append(si, StepInfo{s.file, s.line})
				for r := 0; r < R; r++ {
					lo := uint64(0)
					if r > 0 {
						lo = csv[r-1]
					}
					if uint64(s.first) >= lo && uint64(s.first) < csv[r] {
						quota[r]++
					}
					// a boundary strictly inside the step
					if uint64(s.first) < csv[r] && csv[r] <= uint64(s.last) {
						aligned = false
						for _, cs := range th.Cs {
							if !cs.IsConst() {
								inside := c.And(c.Ugt(cs, c.BV(uint64(s.first), cs.W)), c.Ule(cs, c.BV(uint64(s.last), cs.W)))
								extra = append(extra, c.Not(inside))
							}
						}
					}
				}
			}
			v.Steps = append(v.Steps, si)
			v.Quota = append(v.Quota, quota)
			v.Finished = append(v.Finished, csv[R-1] == uint64(len(th.Events)))
		}
		v.Aligned = aligned
		if aligned {
			return
		}
		r, m2 := check(append([]smt.Term{cond}, extra...), c.Vars)
		if r != smt.Sat {
			return
		}
		m = m2
		v.Model = m2
		v.Inputs = nil
		for _, in := range e.Inputs {
			v.Inputs = append(v.Inputs, InputVal{in.Name, in.Kind, m[in.T.Name]})
		}
		v.Sched = nil
		for _, th := range e.ThreadsDone {
			var row []uint64
			for _, cs := range th.Cs {
				if cs.IsConst() {
					row = append(row, cs.Val)
				} else {
					row = append(row, m[cs.Name])
				}
			}
			v.Sched = append(v.Sched, row)
		}
		v.Trace = e.renderTrace(m)
	}
}
