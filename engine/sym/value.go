// Package sym: bounded symbolic executor for Go SSA (guarded, state-merging, loop-unrolling).
package sym

import (
	"fmt"
	"go/types"
	"sort"

	"golang.org/x/tools/go/ssa"

	"verif/engine/smt"
)

type Value interface{}

type IntV struct{ T smt.Term }  // bit-vector of the Go type's width
type BoolV struct{ T smt.Term } // Bool

// Sel is one step of a path inside an object's content.
type Sel struct {
	I int
	T smt.Term // non-nil: symbolic index (BV64)
}

type PtrAlt struct {
	G    smt.Term
	Obj  *Obj // nil = nil pointer
	Path []Sel
}

// PtrV is a guarded set of targets; guards are mutually exclusive and exhaustive.
type PtrV struct{ Alts []PtrAlt }

// SliceV: P points at element 0 (last Sel of the path is the element index).
type SliceV struct {
	P        PtrV
	Len, Cap smt.Term // BV64
}

// StringV: concrete (S != nil) or a byte view.
type StringV struct {
	S   *string
	P   PtrV
	Len smt.Term
}

type StructV struct{ F []Value }
type ArrayV struct{ E []Value }

type IfaceAlt struct {
	G smt.Term
	T types.Type // nil => nil interface
	V Value
}
type IfaceV struct{ Alts []IfaceAlt }

type FuncAlt struct {
	G    smt.Term
	Fn   *ssa.Function // nil => nil func
	Bind []Value
	// bound method closure on interface / builtin wrappers are not supported
}
type FuncV struct{ Alts []FuncAlt }

type TupleV []Value

// OpaqueV stands for values the executor does not interpret (time.Time, contexts, ...).
type OpaqueV struct {
	Tag string
	ID  int
}

type ObjKind int

const (
	KVal   ObjKind = iota // content is a Value tree
	KBytes                // content is *Bytes
	KMap
	KChan
)

// Obj is the identity of one allocation.
type Obj struct {
	ID     int
	Kind   ObjKind
	Typ    types.Type // type of the content (element type for arrays: ArrayV of N)
	N      int        // number of bytes (KBytes) / elements (slice backing arrays)
	Name   string
	Shared *SharedRegion // non-nil: accesses from threads are visible events
	Thread int           // creating thread (-1 main)
	Poison smt.Term      // non-nil & true: region unmapped (C14)
}

func (o *Obj) String() string {
	if o == nil {
		return "nil"
	}
	return fmt.Sprintf("%s#%d", o.Name, o.ID)
}

// Bytes is the content of a KBytes object: sparse cells over a default.
type Bytes struct {
	N     int
	Cells map[int]smt.Term // BV8
	Zero  bool             // default content zero; else havoc var per cell
	Tag   string           // havoc var prefix
}

func (b *Bytes) clone() *Bytes {
	nb := &Bytes{N: b.N, Zero: b.Zero, Tag: b.Tag, Cells: make(map[int]smt.Term, len(b.Cells)+4)}
	for k, v := range b.Cells {
		nb.Cells[k] = v
	}
	return nb
}

func (b *Bytes) get(c *smt.Ctx, i int) smt.Term {
	if t, ok := b.Cells[i]; ok {
		return t
	}
	if b.Zero {
		return c.BV(0, 8)
	}
	return c.Var(fmt.Sprintf("%s[%d]", b.Tag, i), 8)
}

type MapEntry struct {
	K Value
	V Value
	G smt.Term // present
}
type MapContent struct {
	Entries []MapEntry
}

// ChanContent: FIFO with a symbolic fill. Slots[0] is the oldest element.
type ChanContent struct {
	Cap    int
	Count  smt.Term // BV32
	Slots  []Value  // len == Cap (element values; zero when unused)
	Closed smt.Term
	Refill int // ticker model: number of further ticks that appear after a receive
}

// ---------------------------------------------------------------------------------------------

func nilPtr(c *smt.Ctx) PtrV { return PtrV{Alts: []PtrAlt{{G: c.True}}} }

func mkPtr(c *smt.Ctx, o *Obj, path ...Sel) PtrV {
	return PtrV{Alts: []PtrAlt{{G: c.True, Obj: o, Path: path}}}
}

func (p PtrV) single() (PtrAlt, bool) {
	if len(p.Alts) == 1 {
		return p.Alts[0], true
	}
	return PtrAlt{}, false
}

func selEq(c *smt.Ctx, a, b Sel) smt.Term {
	if a.T == nil && b.T == nil {
		return c.Bool(a.I == b.I)
	}
	at, bt := a.T, b.T
	if at == nil {
		at = c.BV(uint64(a.I), 64)
	}
	if bt == nil {
		bt = c.BV(uint64(b.I), 64)
	}
	return c.Eq(at, bt)
}

func selTerm(c *smt.Ctx, s Sel) smt.Term {
	if s.T != nil {
		return s.T
	}
	return c.BV(uint64(int64(s.I)), 64)
}

func mkSel(t smt.Term) Sel {
	if t.IsConst() {
		return Sel{I: int(t.SVal())}
	}
	return Sel{T: t}
}

func pathEq(c *smt.Ctx, a, b []Sel) smt.Term {
	if len(a) != len(b) {
		return c.False
	}
	r := c.True
	for i := range a {
		r = c.And(r, selEq(c, a[i], b[i]))
	}
	return r
}

// ptrEq: term for pointer equality.
func ptrEq(c *smt.Ctx, a, b PtrV) smt.Term {
	r := c.False
	for _, x := range a.Alts {
		for _, y := range b.Alts {
			if x.Obj != y.Obj {
				continue
			}
			e := c.And(x.G, y.G)
			if x.Obj != nil {
				e = c.And(e, pathEq(c, x.Path, y.Path))
			}
			r = c.Or(r, e)
		}
	}
	return r
}

func ptrIsNil(c *smt.Ctx, a PtrV) smt.Term {
	r := c.False
	for _, x := range a.Alts {
		if x.Obj == nil {
			r = c.Or(r, x.G)
		}
	}
	return r
}

func samePath(a, b []Sel) bool {
	if len(a) != len(b) {
		return false
	}
	for i := range a {
		if a[i].T != b[i].T || (a[i].T == nil && a[i].I != b[i].I) {
			return false
		}
	}
	return true
}

// mergePtr: ite(g, a, b)
func mergePtr(c *smt.Ctx, g smt.Term, a, b PtrV) PtrV {
	if g.IsTrue() {
		return a
	}
	if g.IsFalse() {
		return b
	}
	ng := c.Not(g)
	var out []PtrAlt
	add := func(alt PtrAlt, gg smt.Term) {
		ag := c.And(alt.G, gg)
		if ag.IsFalse() {
			return
		}
		for i := range out {
			if out[i].Obj == alt.Obj && samePath(out[i].Path, alt.Path) {
				out[i].G = c.Or(out[i].G, ag)
				return
			}
		}
		// same object, paths differing only in one symbolic/concrete selector: merge selector by ite
		for i := range out {
			if out[i].Obj == alt.Obj && alt.Obj != nil && len(out[i].Path) == len(alt.Path) {
				diff := -1
				nd := 0
				for k := range alt.Path {
					if !(out[i].Path[k].T == alt.Path[k].T && (alt.Path[k].T != nil || out[i].Path[k].I == alt.Path[k].I)) {
						diff = k
						nd++
					}
				}
				if nd == 1 && (alt.Obj.Kind == KBytes || out[i].Path[diff].T != nil || alt.Path[diff].T != nil) {
					np := append([]Sel{}, out[i].Path...)
					np[diff] = mkSel(c.Ite(ag, selTerm(c, alt.Path[diff]), selTerm(c, out[i].Path[diff])))
					out[i].Path = np
					out[i].G = c.Or(out[i].G, ag)
					return
				}
			}
		}
		out = append(out, PtrAlt{G: ag, Obj: alt.Obj, Path: alt.Path})
	}
	for _, x := range a.Alts {
		add(x, g)
	}
	for _, x := range b.Alts {
		add(x, ng)
	}
	if len(out) == 1 {
		out[0].G = c.True
	}
	return PtrV{Alts: out}
}

func typeKey(t types.Type) string {
	if t == nil {
		return "<nil>"
	}
	return t.String()
}

// Merge computes ite(g, a, b) structurally.
func (e *Engine) Merge(g smt.Term, a, b Value) Value {
	c := e.C
	if g.IsTrue() {
		return a
	}
	if g.IsFalse() {
		return b
	}
	if a == nil {
		return b
	}
	if b == nil {
		return a
	}
	switch x := a.(type) {
	case IntV:
		y, ok := b.(IntV)
		if !ok {
			break
		}
		if x.T == y.T {
			return a
		}
		return IntV{c.Ite(g, x.T, y.T)}
	case BoolV:
		y, ok := b.(BoolV)
		if !ok {
			break
		}
		if x.T == y.T {
			return a
		}
		return BoolV{c.Ite(g, x.T, y.T)}
	case PtrV:
		y, ok := b.(PtrV)
		if !ok {
			break
		}
		return mergePtr(c, g, x, y)
	case SliceV:
		y, ok := b.(SliceV)
		if !ok {
			break
		}
		return SliceV{P: mergePtr(c, g, x.P, y.P), Len: c.Ite(g, x.Len, y.Len), Cap: c.Ite(g, x.Cap, y.Cap)}
	case StringV:
		y, ok := b.(StringV)
		if !ok {
			break
		}
		if x.S != nil && y.S != nil && *x.S == *y.S {
			return a
		}
		xx, yy := e.stringView(x), e.stringView(y)
		return StringV{P: mergePtr(c, g, xx.P, yy.P), Len: c.Ite(g, xx.Len, yy.Len)}
	case StructV:
		y, ok := b.(StructV)
		if !ok || len(x.F) != len(y.F) {
			break
		}
		same := true
		out := make([]Value, len(x.F))
		for i := range x.F {
			out[i] = e.Merge(g, x.F[i], y.F[i])
			if !sameValue(out[i], x.F[i]) {
				same = false
			}
		}
		if same {
			return a
		}
		return StructV{out}
	case ArrayV:
		y, ok := b.(ArrayV)
		if !ok || len(x.E) != len(y.E) {
			break
		}
		out := make([]Value, len(x.E))
		same := true
		for i := range x.E {
			out[i] = e.Merge(g, x.E[i], y.E[i])
			if !sameValue(out[i], x.E[i]) {
				same = false
			}
		}
		if same {
			return a
		}
		return ArrayV{out}
	case TupleV:
		y, ok := b.(TupleV)
		if !ok || len(x) != len(y) {
			break
		}
		out := make(TupleV, len(x))
		for i := range x {
			out[i] = e.Merge(g, x[i], y[i])
		}
		return out
	case IfaceV:
		y, ok := b.(IfaceV)
		if !ok {
			break
		}
		ng := c.Not(g)
		var out []IfaceAlt
		add := func(alt IfaceAlt, gg smt.Term) {
			ag := c.And(alt.G, gg)
			if ag.IsFalse() {
				return
			}
			for i := range out {
				if typeKey(out[i].T) == typeKey(alt.T) {
					// same dynamic type: merge payloads
					if alt.T == nil {
						out[i].G = c.Or(out[i].G, ag)
						return
					}
					out[i].V = e.Merge(ag, alt.V, out[i].V)
					out[i].G = c.Or(out[i].G, ag)
					return
				}
			}
			out = append(out, IfaceAlt{G: ag, T: alt.T, V: alt.V})
		}
		for _, al := range x.Alts {
			add(al, g)
		}
		for _, al := range y.Alts {
			add(al, ng)
		}
		if len(out) == 1 {
			out[0].G = c.True
		}
		return IfaceV{out}
	case FuncV:
		y, ok := b.(FuncV)
		if !ok {
			break
		}
		ng := c.Not(g)
		var out []FuncAlt
		add := func(alt FuncAlt, gg smt.Term) {
			ag := c.And(alt.G, gg)
			if ag.IsFalse() {
				return
			}
			for i := range out {
				if out[i].Fn == alt.Fn && len(out[i].Bind) == len(alt.Bind) {
					nb := make([]Value, len(alt.Bind))
					for k := range nb {
						nb[k] = e.Merge(ag, alt.Bind[k], out[i].Bind[k])
					}
					out[i].Bind = nb
					out[i].G = c.Or(out[i].G, ag)
					return
				}
			}
			out = append(out, FuncAlt{G: ag, Fn: alt.Fn, Bind: alt.Bind})
		}
		for _, al := range x.Alts {
			add(al, g)
		}
		for _, al := range y.Alts {
			add(al, ng)
		}
		if len(out) == 1 {
			out[0].G = c.True
		}
		return FuncV{out}
	case OpaqueV:
		y, ok := b.(OpaqueV)
		if ok && x == y {
			return a
		}
		return OpaqueV{Tag: "merged", ID: e.fresh()}
	}
	panic(e.unsupported(fmt.Sprintf("merge of %T and %T", a, b)))
}

// sameValue is a cheap identity test used to avoid re-allocating unchanged aggregates.
func sameValue(a, b Value) bool {
	switch x := a.(type) {
	case IntV:
		y, ok := b.(IntV)
		return ok && x.T == y.T
	case BoolV:
		y, ok := b.(BoolV)
		return ok && x.T == y.T
	case PtrV:
		y, ok := b.(PtrV)
		if !ok || len(x.Alts) != len(y.Alts) {
			return false
		}
		for i := range x.Alts {
			if x.Alts[i].G != y.Alts[i].G || x.Alts[i].Obj != y.Alts[i].Obj || !samePath(x.Alts[i].Path, y.Alts[i].Path) {
				return false
			}
		}
		return true
	case SliceV:
		y, ok := b.(SliceV)
		return ok && x.Len == y.Len && x.Cap == y.Cap && sameValue(x.P, y.P)
	case StructV:
		y, ok := b.(StructV)
		if !ok || len(x.F) != len(y.F) {
			return false
		}
		for i := range x.F {
			if !sameValue(x.F[i], y.F[i]) {
				return false
			}
		}
		return true
	case ArrayV:
		y, ok := b.(ArrayV)
		if !ok || len(x.E) != len(y.E) {
			return false
		}
		for i := range x.E {
			if !sameValue(x.E[i], y.E[i]) {
				return false
			}
		}
		return true
	case StringV:
		y, ok := b.(StringV)
		if !ok {
			return false
		}
		if x.S != nil && y.S != nil {
			return *x.S == *y.S
		}
		return x.S == nil && y.S == nil && x.Len == y.Len && sameValue(x.P, y.P)
	case IfaceV:
		y, ok := b.(IfaceV)
		if !ok || len(x.Alts) != len(y.Alts) {
			return false
		}
		for i := range x.Alts {
			if x.Alts[i].G != y.Alts[i].G || typeKey(x.Alts[i].T) != typeKey(y.Alts[i].T) || !sameValue(x.Alts[i].V, y.Alts[i].V) {
				return false
			}
		}
		return true
	case FuncV:
		y, ok := b.(FuncV)
		if !ok || len(x.Alts) != len(y.Alts) {
			return false
		}
		for i := range x.Alts {
			if x.Alts[i].G != y.Alts[i].G || x.Alts[i].Fn != y.Alts[i].Fn || len(x.Alts[i].Bind) != len(y.Alts[i].Bind) {
				return false
			}
			for k := range x.Alts[i].Bind {
				if !sameValue(x.Alts[i].Bind[k], y.Alts[i].Bind[k]) {
					return false
				}
			}
		}
		return true
	case OpaqueV:
		y, ok := b.(OpaqueV)
		return ok && x == y
	case nil:
		return b == nil
	case TupleV:
		y, ok := b.(TupleV)
		if !ok || len(x) != len(y) {
			return false
		}
		for i := range x {
			if !sameValue(x[i], y[i]) {
				return false
			}
		}
		return true
	}
	return false
}

// ---------------------------------------------------------------------------------------------
// type helpers

func intWidth(t types.Type) (w int, signed bool, ok bool) {
	b, isb := t.Underlying().(*types.Basic)
	if !isb {
		return 0, false, false
	}
	switch b.Kind() {
	case types.Int8:
		return 8, true, true
	case types.Int16:
		return 16, true, true
	case types.Int32:
		return 32, true, true
	case types.Int64, types.Int:
		return 64, true, true
	case types.Uint8:
		return 8, false, true
	case types.Uint16:
		return 16, false, true
	case types.Uint32:
		return 32, false, true
	case types.Uint64, types.Uint, types.Uintptr:
		return 64, false, true
	case types.UntypedInt, types.UntypedRune:
		return 64, true, true
	}
	return 0, false, false
}

func isBool(t types.Type) bool {
	b, ok := t.Underlying().(*types.Basic)
	return ok && (b.Kind() == types.Bool || b.Kind() == types.UntypedBool)
}

func isString(t types.Type) bool {
	b, ok := t.Underlying().(*types.Basic)
	return ok && (b.Kind() == types.String || b.Kind() == types.UntypedString)
}

func isByte(t types.Type) bool {
	b, ok := t.Underlying().(*types.Basic)
	return ok && (b.Kind() == types.Uint8 || b.Kind() == types.Int8)
}

var opaqueTypes = map[string]bool{
	"time.Time": true, "time.Duration": false,
}

// zero builds the zero value of a type.
func (e *Engine) zero(t types.Type) Value {
	c := e.C
	if named, ok := t.(*types.Named); ok {
		if named.Obj().Pkg() != nil {
			full := named.Obj().Pkg().Path() + "." + named.Obj().Name()
			switch full {
			case "time.Time":
				return StructV{F: []Value{IntV{c.BV(0, 64)}, IntV{c.BV(0, 64)}, nilPtr(c)}}
			}
		}
	}
	switch u := t.Underlying().(type) {
	case *types.Basic:
		if w, _, ok := intWidth(u); ok {
			return IntV{c.BV(0, w)}
		}
		if isBool(u) {
			return BoolV{c.False}
		}
		if isString(u) {
			s := ""
			return StringV{S: &s}
		}
		if u.Kind() == types.UnsafePointer {
			return nilPtr(c)
		}
		if u.Kind() == types.Float64 || u.Kind() == types.Float32 {
			return OpaqueV{Tag: "float"}
		}
	case *types.Pointer:
		return nilPtr(c)
	case *types.Slice:
		return SliceV{P: nilPtr(c), Len: c.BV(0, 64), Cap: c.BV(0, 64)}
	case *types.Struct:
		f := make([]Value, u.NumFields())
		for i := range f {
			f[i] = e.zero(u.Field(i).Type())
		}
		return StructV{f}
	case *types.Array:
		n := int(u.Len())
		el := make([]Value, n)
		if n > 0 {
			z := e.zero(u.Elem())
			for i := range el {
				el[i] = z
			}
		}
		return ArrayV{el}
	case *types.Interface:
		return IfaceV{Alts: []IfaceAlt{{G: c.True}}}
	case *types.Signature:
		return FuncV{Alts: []FuncAlt{{G: c.True}}}
	case *types.Map, *types.Chan:
		return nilPtr(c)
	case *types.Tuple:
		tv := make(TupleV, u.Len())
		for i := range tv {
			tv[i] = e.zero(u.At(i).Type())
		}
		return tv
	}
	panic(e.unsupported("zero value of " + t.String()))
}

func sortedKeys(m map[int]smt.Term) []int {
	ks := make([]int, 0, len(m))
	for k := range m {
		ks = append(ks, k)
	}
	sort.Ints(ks)
	return ks
}
