package sym

import (
	"go/types"

	"golang.org/x/tools/go/ssa"

	"verif/engine/smt"
)

func (e *Engine) chanContent(st *State, ch PtrV, where string) (*Obj, *ChanContent) {
	a, ok := ch.single()
	if !ok {
		panic(e.unsupported("channel value with several targets at " + where))
	}
	if a.Obj == nil {
		return nil, nil
	}
	cc, _ := st.Heap[a.Obj].(*ChanContent)
	return a.Obj, cc
}

func (e *Engine) sharedChan(st *State, ch PtrV) bool {
	if st.Th == nil {
		return false
	}
	a, ok := ch.single()
	return ok && a.Obj != nil && a.Obj.Thread != st.Th.ID
}

// Sequential semantics: the FIFO has a concrete fill. An operation that would block forever in a
// single-threaded run is reported (noblock).
func (e *Engine) chanSend(st *State, ch PtrV, v Value, where string) {
	if e.sharedChan(st, ch) {
		e.chanEvent(st, EvChanSend, ch, where)
		return
	}
	o, cc := e.chanContent(st, ch, where)
	if o == nil {
		e.fail(st, e.C.True, "noblock:send-on-nil-channel", where)
		return
	}
	e.fail(st, cc.Closed, "nopanic:send-on-closed-channel", where)
	if len(cc.Buf) >= cc.Cap {
		e.fail(st, e.C.True, "noblock:send-would-block-forever", where)
		return
	}
	nc := &ChanContent{Cap: cc.Cap, Closed: cc.Closed, Buf: append(append([]Value{}, cc.Buf...), v)}
	st.Heap[o] = nc
}

func (e *Engine) chanRecv(st *State, ch PtrV, commaOk bool, typ types.Type, where string) Value {
	c := e.C
	var et types.Type
	if commaOk {
		et = typ.(*types.Tuple).At(0).Type()
	} else {
		et = typ
	}
	if e.sharedChan(st, ch) {
		ev := e.chanEvent(st, EvChanRecv, ch, where)
		if commaOk {
			return TupleV{e.zero(et), BoolV{ev.Res}}
		}
		return e.zero(et)
	}
	o, cc := e.chanContent(st, ch, where)
	if o == nil {
		e.fail(st, c.True, "noblock:receive-on-nil-channel", where)
		return e.zero(typ)
	}
	if len(cc.Buf) > 0 {
		v := cc.Buf[0]
		st.Heap[o] = &ChanContent{Cap: cc.Cap, Closed: cc.Closed, Buf: append([]Value{}, cc.Buf[1:]...)}
		if commaOk {
			return TupleV{v, BoolV{c.True}}
		}
		return v
	}
	e.fail(st, c.Not(cc.Closed), "noblock:receive-would-block-forever", where)
	if commaOk {
		return TupleV{e.zero(et), BoolV{c.False}}
	}
	return e.zero(et)
}

func (e *Engine) chanClose(st *State, ch PtrV, where string) {
	if e.sharedChan(st, ch) {
		e.chanEvent(st, EvChanClose, ch, where)
		return
	}
	o, cc := e.chanContent(st, ch, where)
	if o == nil {
		e.fail(st, e.C.True, "nopanic:close-of-nil-channel", where)
		return
	}
	e.fail(st, cc.Closed, "nopanic:close-of-closed-channel", where)
	st.Heap[o] = &ChanContent{Cap: cc.Cap, Closed: e.C.True, Buf: cc.Buf}
}

// selectOp: supported forms: non-blocking select (default) and blocking select, evaluated
// sequentially: the first ready case in source order is taken (Go picks pseudo-randomly among
// ready cases; harnesses that depend on the choice must not use this path).
func (e *Engine) selectOp(fr *frame, st *State, regs map[ssa.Value]Value, x *ssa.Select, where string) Value {
	c := e.C
	// result tuple: (index int, recvOk bool, r_0 ... r_{n-1}) with r_i for receive states
	nrecv := 0
	for _, s := range x.States {
		if s.Dir == types.RecvOnly {
			nrecv++
		}
	}
	mk := func(idx smt.Term, ok smt.Term, recvVals []Value) Value {
		tv := TupleV{IntV{idx}, BoolV{ok}}
		tv = append(tv, recvVals...)
		return tv
	}
	zeros := func() []Value {
		var out []Value
		for _, s := range x.States {
			if s.Dir == types.RecvOnly {
				out = append(out, e.zero(s.Chan.Type().Underlying().(*types.Chan).Elem()))
			}
		}
		return out
	}
	// thread mode, shared channels: only the single-case non-blocking form
	if len(x.States) == 1 && !x.Blocking {
		s := x.States[0]
		ch := e.operand(fr, regs, s.Chan).(PtrV)
		if e.sharedChan(st, ch) {
			kind := EvChanTrySend
			if s.Dir == types.RecvOnly {
				kind = EvChanTryRecv
			}
			ev := e.chanEvent(st, kind, ch, where)
			idx := c.Ite(ev.Res, c.BV(0, 64), c.BV(^uint64(0), 64))
			return mk(idx, ev.Res, zeros())
		}
	}
	// sequential evaluation over concrete fills
	rv := zeros()
	ri := 0
	for i, s := range x.States {
		ch := e.operand(fr, regs, s.Chan).(PtrV)
		if e.sharedChan(st, ch) {
			panic(e.unsupported("multi-case select on a channel shared between threads at " + where))
		}
		o, cc := e.chanContent(st, ch, where)
		if s.Dir == types.SendOnly {
			if o != nil && len(cc.Buf) < cc.Cap && cc.Closed.IsFalse() {
				v := e.operand(fr, regs, s.Send)
				st.Heap[o] = &ChanContent{Cap: cc.Cap, Closed: cc.Closed, Buf: append(append([]Value{}, cc.Buf...), v)}
				return mk(c.BV(uint64(i), 64), c.False, rv)
			}
			continue
		}
		if o != nil && len(cc.Buf) > 0 {
			rv[ri] = cc.Buf[0]
			st.Heap[o] = &ChanContent{Cap: cc.Cap, Closed: cc.Closed, Buf: append([]Value{}, cc.Buf[1:]...)}
			return mk(c.BV(uint64(i), 64), c.True, rv)
		}
		if o != nil && cc.Closed.IsTrue() {
			return mk(c.BV(uint64(i), 64), c.False, rv)
		}
		if o != nil && !cc.Closed.IsFalse() {
			panic(e.unsupported("select on a channel whose closed flag is symbolic at " + where))
		}
		ri++
	}
	if !x.Blocking {
		return mk(c.BV(^uint64(0), 64), c.False, rv)
	}
	e.fail(st, c.True, "noblock:select-would-block-forever", where)
	return mk(c.BV(0, 64), c.False, rv)
}
