package sym

import (
	"go/types"

	"golang.org/x/tools/go/ssa"

	"verif/engine/smt"
)

func (e *Engine) chanContent(st *State, ch PtrV, where string) (*Obj, *ChanContent) {
	a, ok := ch.single()
	if !ok {
		panic(e.unsupported("channel value with several targets at " + where))
	}
	if a.Obj == nil {
		return nil, nil
	}
	cc, _ := st.Heap[a.Obj].(*ChanContent)
	return a.Obj, cc
}

type chanAlt struct {
	g  smt.Term
	o  *Obj
	cc *ChanContent
}

// chanAlts lists the guarded channel targets of a channel value (nil targets have o == nil).
func (e *Engine) chanAlts(st *State, ch PtrV) []chanAlt {
	var out []chanAlt
	for _, a := range ch.Alts {
		if a.G.IsFalse() {
			continue
		}
		if a.Obj == nil {
			out = append(out, chanAlt{g: a.G})
			continue
		}
		cc, _ := st.Heap[a.Obj].(*ChanContent)
		out = append(out, chanAlt{g: a.G, o: a.Obj, cc: cc})
	}
	return out
}

func (e *Engine) sharedChan(st *State, ch PtrV) bool {
	if st.Th == nil {
		return false
	}
	a, ok := ch.single()
	return ok && a.Obj != nil && a.Obj.Thread != st.Th.ID
}

// push appends v under guard g (the caller established room).
func (e *Engine) chanPush(cc *ChanContent, g smt.Term, v Value) *ChanContent {
	c := e.C
	nc := &ChanContent{Cap: cc.Cap, Closed: cc.Closed, Count: c.Ite(g, c.Add(cc.Count, c.BV(1, 32)), cc.Count), Refill: cc.Refill}
	for i := range cc.Slots {
		at := c.And(g, c.Eq(cc.Count, c.BV(uint64(i), 32)))
		nc.Slots = append(nc.Slots, e.Merge(at, v, cc.Slots[i]))
	}
	return nc
}

// pop removes the oldest element under guard g and returns it.
func (e *Engine) chanPop(cc *ChanContent, g smt.Term, et types.Type) (*ChanContent, Value) {
	c := e.C
	var v Value
	if cc.Cap > 0 {
		v = cc.Slots[0]
	} else {
		v = e.zero(et)
	}
	nc := &ChanContent{Cap: cc.Cap, Closed: cc.Closed, Count: c.Ite(g, c.Sub(cc.Count, c.BV(1, 32)), cc.Count), Refill: cc.Refill}
	if cc.Refill > 0 && !g.IsFalse() {
		// ticker: the next tick is already there
		nc.Count = cc.Count
		nc.Refill = cc.Refill - 1
		nc.Slots = cc.Slots
		return nc, v
	}
	for i := range cc.Slots {
		var next Value
		if i+1 < len(cc.Slots) {
			next = cc.Slots[i+1]
		} else {
			next = e.zero(et)
		}
		nc.Slots = append(nc.Slots, e.Merge(g, next, cc.Slots[i]))
	}
	return nc, v
}

func chanElem(t types.Type) types.Type {
	return t.Underlying().(*types.Chan).Elem()
}

// Sequential semantics: an operation that cannot proceed would block forever in a
// single-threaded run; that is reported (noblock) and execution continues as if it proceeded.
func (e *Engine) chanSend(st *State, ch PtrV, v Value, where string) {
	c := e.C
	e.hookTick(st, nil, where, false)
	if e.sharedChan(st, ch) {
		e.chanEvent(st, EvChanSend, ch, where)
		return
	}
again:
	for _, al := range e.chanAlts(st, ch) {
		if al.o == nil {
			e.fail(st, al.g, "noblock:send-on-nil-channel", where)
			continue
		}
		cc := al.cc
		e.fail(st, c.And(al.g, cc.Closed), "nopanic:send-on-closed-channel", where)
		room := c.Ult(cc.Count, c.BV(uint64(cc.Cap), 32))
		if e.blockUntil(st, c.Or(c.Not(al.g), room), "send-would-block-forever", where) {
			goto again
		}
		st.Heap[al.o] = e.chanPush(cc, c.And(al.g, room), v)
	}
}

func (e *Engine) chanRecv(st *State, ch PtrV, commaOk bool, typ types.Type, where string) Value {
	c := e.C
	e.hookTick(st, nil, where, false)
	var et types.Type
	if commaOk {
		et = typ.(*types.Tuple).At(0).Type()
	} else {
		et = typ
	}
	if e.sharedChan(st, ch) {
		ev := e.chanEvent(st, EvChanRecv, ch, where)
		if commaOk {
			return TupleV{e.zero(et), BoolV{ev.Res}}
		}
		return e.zero(et)
	}
again:
	res := e.zero(et)
	okT := c.False
	for _, al := range e.chanAlts(st, ch) {
		if al.o == nil {
			e.fail(st, al.g, "noblock:receive-on-nil-channel", where)
			continue
		}
		cc := al.cc
		has := c.Ne(cc.Count, c.BV(0, 32))
		if e.blockUntil(st, c.Or(c.Not(al.g), has, cc.Closed), "receive-would-block-forever", where) {
			goto again
		}
		nc, v := e.chanPop(cc, c.And(al.g, has), et)
		st.Heap[al.o] = nc
		res = e.Merge(c.And(al.g, has), v, res)
		okT = c.Or(okT, c.And(al.g, has))
	}
	if commaOk {
		return TupleV{res, BoolV{okT}}
	}
	return res
}

func (e *Engine) chanClose(st *State, ch PtrV, where string) {
	if e.sharedChan(st, ch) {
		e.chanEvent(st, EvChanClose, ch, where)
		return
	}
	c := e.C
	for _, al := range e.chanAlts(st, ch) {
		if al.o == nil {
			e.fail(st, al.g, "nopanic:close-of-nil-channel", where)
			continue
		}
		cc := al.cc
		e.fail(st, c.And(al.g, cc.Closed), "nopanic:close-of-closed-channel", where)
		st.Heap[al.o] = &ChanContent{Cap: cc.Cap, Closed: c.Or(cc.Closed, al.g), Count: cc.Count, Slots: cc.Slots, Refill: cc.Refill}
	}
}

// selectOp. Thread mode supports the single-case non-blocking form on shared channels (events).
// Sequential mode: cases are examined in source order and the first ready one is taken (Go picks
// pseudo-randomly among several ready cases; harnesses must not depend on that choice). A nil
// channel case is never ready. A blocking select with no ready case is reported (noblock).
func (e *Engine) selectOp(fr *frame, st *State, regs map[ssa.Value]Value, x *ssa.Select, where string) Value {
	c := e.C
	e.hookTick(st, nil, where, false)
	var recvT []types.Type
	for _, s := range x.States {
		if s.Dir == types.RecvOnly {
			recvT = append(recvT, chanElem(s.Chan.Type()))
		}
	}
	mk := func(idx smt.Term, ok smt.Term, recvVals []Value) Value {
		tv := TupleV{IntV{idx}, BoolV{ok}}
		tv = append(tv, recvVals...)
		return tv
	}
	zeros := func() []Value {
		var out []Value
		for _, t := range recvT {
			out = append(out, e.zero(t))
		}
		return out
	}
	if len(x.States) == 1 && !x.Blocking {
		s := x.States[0]
		ch := e.operand(fr, regs, s.Chan).(PtrV)
		if e.sharedChan(st, ch) {
			kind := EvChanTrySend
			if s.Dir == types.RecvOnly {
				kind = EvChanTryRecv
			}
			ev := e.chanEvent(st, kind, ch, where)
			idx := c.Ite(ev.Res, c.BV(0, 64), c.BV(^uint64(0), 64))
			return mk(idx, ev.Res, zeros())
		}
	}
	var rv []Value
	var idx, okT, taken smt.Term
	// Timer channels are modelled as already expired; a real timer fires only if nothing else is
	// ready when the select is entered, so ready non-timer cases are taken first (source order
	// within each group).
	var nonTimer, timers []int
	riOf := make([]int, len(x.States))
	chans := make([]PtrV, len(x.States))
	nri := 0
	for i, s := range x.States {
		chans[i] = e.operand(fr, regs, s.Chan).(PtrV)
		if s.Dir == types.RecvOnly {
			riOf[i] = nri
			nri++
		}
	}
	isTimer := func(p PtrV) bool {
		for _, al := range p.Alts {
			if al.Obj != nil && al.Obj.Name == "timer.C" {
				return true
			}
		}
		return false
	}
	for i := range x.States {
		if isTimer(chans[i]) {
			timers = append(timers, i)
		} else {
			nonTimer = append(nonTimer, i)
		}
	}
	evalGroup := func(order []int) {
		for _, i := range order {
			s := x.States[i]
			ri := riOf[i]
			ch := chans[i]
			if e.sharedChan(st, ch) {
				panic(e.unsupported("multi-case select on a channel shared between threads at " + where))
			}
			alts := e.chanAlts(st, ch)
			if s.Dir == types.SendOnly {
				var v Value
				for _, al := range alts {
					if al.o == nil {
						continue
					}
					cc := al.cc
					ready := c.And(al.g, c.Ult(cc.Count, c.BV(uint64(cc.Cap), 32)), c.Not(cc.Closed))
					take := c.And(ready, c.Not(taken))
					if take.IsFalse() {
						continue
					}
					if v == nil {
						v = e.operand(fr, regs, s.Send)
					}
					st.Heap[al.o] = e.chanPush(cc, take, v)
					idx = c.Ite(take, c.BV(uint64(i), 64), idx)
					taken = c.Or(taken, take)
				}
				continue
			}
			for _, al := range alts {
				if al.o == nil {
					continue
				}
				cc := al.cc
				has := c.Ne(cc.Count, c.BV(0, 32))
				ready := c.And(al.g, c.Or(has, cc.Closed))
				take := c.And(ready, c.Not(taken))
				if take.IsFalse() {
					continue
				}
				nc, v := e.chanPop(cc, c.And(take, has), recvT[ri])
				st.Heap[al.o] = nc
				rv[ri] = e.Merge(c.And(take, has), v, rv[ri])
				okT = c.Ite(take, has, okT)
				idx = c.Ite(take, c.BV(uint64(i), 64), idx)
				taken = c.Or(taken, take)
			}
		}
	}
retry:
	rv = zeros()
	idx = c.BV(^uint64(0), 64)
	okT = c.False
	taken = c.False
	evalGroup(nonTimer)
	if taken.IsTrue() {
		e.fireTimer = false
	}
	if e.GoPolicy == "coro" && st.Th == nil && len(timers) > 0 && !st.G.IsFalse() && !c.And(st.G, c.Not(taken)).IsFalse() {
		// a timer case is only taken when nothing else can happen any more
		definite := c.And(st.G, taken).IsFalse()
		if e.cur != nil {
			if !definite {
				panic(e.unsupported("select with a timer whose other cases depend on symbolic data inside a goroutine at " + where))
			}
			if !e.fireTimer {
				e.park(st, true, where)
				goto retry
			}
			e.fireTimer = false
			e.cur.retrying = false
		} else if definite && !e.mainRetrying && e.liveCoros() {
			e.runCoros(st)
			e.mainRetrying = true
			goto retry
		}
	}
	evalGroup(timers)
	if x.Blocking {
		if e.blockUntil(st, taken, "select-would-block-forever", where) {
			goto retry
		}
	}
	if e.cur == nil {
		e.mainRetrying = false
	}
	return mk(idx, okT, rv)
}
