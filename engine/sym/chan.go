package sym

import (
	"go/types"

	"golang.org/x/tools/go/ssa"
)

func (e *Engine) chanSend(st *State, ch PtrV, v Value, where string) {
	panic(e.unsupported("channel send at " + where))
}

func (e *Engine) chanRecv(st *State, ch PtrV, commaOk bool, typ types.Type, where string) Value {
	panic(e.unsupported("channel receive at " + where))
}

func (e *Engine) chanClose(st *State, ch PtrV, where string) {
	panic(e.unsupported("channel close at " + where))
}

func (e *Engine) selectOp(fr *frame, st *State, regs map[ssa.Value]Value, x *ssa.Select, where string) Value {
	panic(e.unsupported("select at " + where))
}
