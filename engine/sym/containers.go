package sym

import (
	"fmt"
	"go/types"

	"golang.org/x/tools/go/ssa"

	"verif/engine/smt"
)

func (e *Engine) mapObj(st *State, m PtrV, where string) (*Obj, *MapContent) {
	a, ok := m.single()
	if !ok {
		panic(e.unsupported("map value with several targets at " + where))
	}
	if a.Obj == nil {
		return nil, &MapContent{}
	}
	mc, ok := st.Heap[a.Obj].(*MapContent)
	if !ok {
		if gv, ok2 := e.globalVals[a.Obj]; ok2 {
			mc = gv.(*MapContent)
		} else {
			panic(e.unsupported("map object not in heap at " + where))
		}
	}
	return a.Obj, mc
}

func (e *Engine) keyEq(a, b Value) smt.Term {
	return e.valueEq(a, b)
}

func (e *Engine) mapAlts(st *State, m PtrV, where string) []PtrAlt {
	return m.Alts
}

func (e *Engine) mapContentOf(st *State, o *Obj, where string) *MapContent {
	mc, ok := st.Heap[o].(*MapContent)
	if !ok {
		if gv, ok2 := e.globalVals[o]; ok2 {
			return gv.(*MapContent)
		}
		panic(e.unsupported("map object not in heap at " + where))
	}
	return mc
}

func (e *Engine) lookup(st *State, x *ssa.Lookup, m Value, k Value, where string) Value {
	c := e.C
	e.eqSt = st
	defer func() { e.eqSt = nil }()
	if sv, ok := m.(StringV); ok {
		return e.indexValue(st, sv, k, x.X.Type(), where)
	}
	mt := x.X.Type().Underlying().(*types.Map)
	res := e.zero(mt.Elem())
	found := c.False
	for _, alt := range m.(PtrV).Alts {
		if alt.Obj == nil || alt.G.IsFalse() {
			continue
		}
		e.raceRecord(alt, mt, false, where)
		mc := e.mapContentOf(st, alt.Obj, where)
		for _, en := range mc.Entries {
			hit := c.And(alt.G, en.G, e.keyEq(en.K, k))
			res = e.Merge(hit, en.V, res)
			found = c.Or(found, hit)
		}
	}
	if x.CommaOk {
		return TupleV{res, BoolV{found}}
	}
	return res
}

func (e *Engine) mapUpdate(st *State, m PtrV, k, v Value, where string) {
	e.eqSt = st
	defer func() { e.eqSt = nil }()
	c := e.C
	for _, alt := range m.Alts {
		if alt.G.IsFalse() {
			continue
		}
		if alt.Obj == nil {
			e.fail(st, alt.G, "nopanic:assignment-to-nil-map", where)
			continue
		}
		e.raceRecord(alt, alt.Obj.Typ, true, where)
		mc := e.mapContentOf(st, alt.Obj, where)
		nm := &MapContent{}
		for _, en := range mc.Entries {
			g := c.And(en.G, c.Not(c.And(alt.G, e.keyEq(en.K, k))))
			if g.IsFalse() {
				continue
			}
			nm.Entries = append(nm.Entries, MapEntry{K: en.K, V: en.V, G: g})
		}
		nm.Entries = append(nm.Entries, MapEntry{K: k, V: v, G: alt.G})
		st.Heap[alt.Obj] = nm
	}
}

func (e *Engine) mapDelete(st *State, m PtrV, k Value, where string) {
	c := e.C
	for _, alt := range m.Alts {
		if alt.Obj == nil || alt.G.IsFalse() {
			continue
		}
		e.raceRecord(alt, alt.Obj.Typ, true, where)
		mc := e.mapContentOf(st, alt.Obj, where)
		nm := &MapContent{}
		for _, en := range mc.Entries {
			g := c.And(en.G, c.Not(c.And(alt.G, e.keyEq(en.K, k))))
			if g.IsFalse() {
				continue
			}
			nm.Entries = append(nm.Entries, MapEntry{K: en.K, V: en.V, G: g})
		}
		st.Heap[alt.Obj] = nm
	}
}

func (e *Engine) mapLen(st *State, o *Obj) smt.Term {
	c := e.C
	mc := st.Heap[o].(*MapContent)
	n := c.BV(0, 64)
	for _, en := range mc.Entries {
		n = c.Add(n, c.Ite(en.G, c.BV(1, 64), c.BV(0, 64)))
	}
	return n
}

// rangeIter is the content of an iterator object (stored as OpaqueV-like Go struct in heap).
type rangeIter struct {
	entries []MapEntry
	pos     smt.Term
	kT, vT  types.Type
}

func (e *Engine) rangeInit(st *State, x *ssa.Range, m Value, where string) Value {
	c := e.C
	pv, ok := m.(PtrV)
	if !ok {
		panic(e.unsupported("range over non-map at " + where))
	}
	var entries []MapEntry
	for _, alt := range pv.Alts {
		if alt.Obj == nil || alt.G.IsFalse() {
			continue
		}
		mc := e.mapContentOf(st, alt.Obj, where)
		for _, en := range mc.Entries {
			entries = append(entries, MapEntry{K: en.K, V: en.V, G: c.And(alt.G, en.G)})
		}
	}
	mt := x.X.Type().Underlying().(*types.Map)
	o := e.newObj(KVal, nil, 0, "iter")
	st.Heap[o] = &rangeIter{entries: entries, pos: c.BV(0, 64), kT: mt.Key(), vT: mt.Elem()}
	return mkPtr(c, o)
}

func (e *Engine) rangeNext(st *State, x *ssa.Next, it Value, where string) Value {
	c := e.C
	a, _ := it.(PtrV).single()
	ri := st.Heap[a.Obj].(*rangeIter)
	k := e.zero(ri.kT)
	v := e.zero(ri.vT)
	found := c.False
	newpos := ri.pos
	for j := len(ri.entries) - 1; j >= 0; j-- {
		en := ri.entries[j]
		elig := c.And(en.G, c.Ule(ri.pos, c.BV(uint64(j), 64)))
		k = e.Merge(elig, en.K, k)
		v = e.Merge(elig, en.V, v)
		newpos = c.Ite(elig, c.BV(uint64(j+1), 64), newpos)
		found = c.Or(found, elig)
	}
	st.Heap[a.Obj] = &rangeIter{entries: ri.entries, pos: newpos, kT: ri.kT, vT: ri.vT}
	return TupleV{BoolV{found}, k, v}
}

// merge support for iterator objects
func (e *Engine) mergeIter(g smt.Term, a, b *rangeIter) *rangeIter {
	if len(a.entries) != len(b.entries) {
		panic(e.unsupported("merge of different iterators"))
	}
	return &rangeIter{entries: a.entries, pos: e.C.Ite(g, a.pos, b.pos), kT: a.kT, vT: a.vT}
}

var _ = fmt.Sprintf
