package sym

import (
	"fmt"
	"go/types"
	"os"
	"sort"
	"strings"
)

// Conflicting-access check (vfRaceBegin / vfRaceEnd / vfRaceCheck).
//
// Two operations that the API allows to run in parallel (Read and Write on one net.Conn, the
// reader and the writer side of a stream) must not touch the same Go-heap location without
// synchronisation when at least one of them writes it: any interleaving point inside them - not
// only those at synchronisation operations, which the hook families enumerate - would then matter.
// The harness brackets each operation (vfRaceBegin(tag) ... vfRaceEnd()); while a bracket is open
// every load and store of a location that existed before the first bracket is recorded with the
// set of mutexes held and whether it is a sync/atomic operation. vfRaceCheck raises an obligation
// for every location accessed by two different tags, written by at least one of them, where the
// two accesses hold no common mutex and are not both atomic. The operations run one after the
// other on the real code; the access sets are those of this execution (symbolic data, concrete
// shapes), i.e. this is a happens-before-free conflict check over the paths executed, not a proof
// of race freedom.

type raceAcc struct {
	seq    int            // position in the execution
	acq    map[string]int // sync objects this tag had acquired before the access -> position of the latest acquire
	ptr    bool // the location holds a pointer-like value (pointer, slice, map, interface, string, func, chan)
	tag    int
	write  bool
	atomic bool
	locks  map[*Obj]bool
	where  string
}

type raceState struct {
	tag     int // 0: no bracket open
	limitID int // objects with ID below this existed before the first bracket
	acc     map[string][]raceAcc
	held    map[*Obj]int
	seq     int
	acq     map[int]map[string]int   // per tag: sync object -> position of its latest acquire
	rels    map[int]map[string][]int // per tag: sync object -> positions of its releases
}

func (e *Engine) raceBegin(tag int) {
	if e.race == nil {
		e.race = &raceState{acc: map[string][]raceAcc{}, held: map[*Obj]int{}, acq: map[int]map[string]int{}, rels: map[int]map[string][]int{}}
	}
	if e.race.limitID == 0 {
		e.race.limitID = e.nextObj + 1
	}
	e.race.tag = tag
}

func (e *Engine) raceEnd() {
	if e.race != nil {
		e.race.tag = 0
	}
}

// raceSync records an acquire (a lock acquisition, an atomic read) or a release (an unlock, an atomic
// write) of the synchronisation object `key` by the operation whose bracket is open. An access x of
// one operation happens before an access y of the other when the first operation released some
// object after x and the second acquired the same object, later, before y (hand-over through a lock
// or an atomic variable: a stream that one caller puts into the pool and the other one takes out).
func (e *Engine) raceSync(key string, acquire, release bool) {
	r := e.race
	if r == nil || r.tag == 0 || e.hookBusy {
		return
	}
	r.seq++
	if acquire {
		if r.acq[r.tag] == nil {
			r.acq[r.tag] = map[string]int{}
		}
		r.acq[r.tag][key] = r.seq
	}
	if release {
		if r.rels[r.tag] == nil {
			r.rels[r.tag] = map[string][]int{}
		}
		r.rels[r.tag][key] = append(r.rels[r.tag][key], r.seq)
	}
}

func (e *Engine) raceLock(o *Obj, d int) {
	if e.race == nil {
		return
	}
	e.raceSync(o.String(), d > 0, d < 0)
	e.race.held[o] += d
	if e.race.held[o] <= 0 {
		delete(e.race.held, o)
	}
}

func selKey(path []Sel) string {
	var sb strings.Builder
	for _, s := range path {
		if s.T != nil {
			sb.WriteString(".?")
		} else {
			fmt.Fprintf(&sb, ".%d", s.I)
		}
	}
	return sb.String()
}

func (e *Engine) raceRecord(alt PtrAlt, typ types.Type, write bool, where string) {
	r := e.race
	if r == nil || r.tag == 0 || alt.Obj == nil || alt.Obj.ID >= r.limitID || e.hookBusy {
		return
	}
	o := alt.Obj
	if o.Kind == KChan || strings.HasPrefix(where, "zz_verif_") {
		// (accesses made by the harness and its stubs - the modelled wire, the OS model - are not
		// accesses of the code under test)
		return
	}
	key := fmt.Sprintf("%s%s", o.String(), selKey(alt.Path))
	locks := map[*Obj]bool{}
	for l := range r.held {
		locks[l] = true
	}
	for _, a := range r.acc[key] {
		if a.tag == r.tag && a.write == write && a.atomic == e.inAtomicAcc && len(a.locks) == len(locks) {
			return
		}
	}
	r.seq++
	acq := map[string]int{}
	for k, v := range r.acq[r.tag] {
		acq[k] = v
	}
	r.acc[key] = append(r.acc[key], raceAcc{seq: r.seq, acq: acq, ptr: pointerLike(typ) || o.Kind == KMap, tag: r.tag, write: write, atomic: e.inAtomicAcc, locks: locks, where: where})
}

func (e *Engine) raceCheck(st *State, id string, site string) {
	r := e.race
	if r == nil {
		return
	}
	var keys []string
	for k := range r.acc {
		keys = append(keys, k)
	}
	sort.Strings(keys)
	n := 0
	for _, k := range keys {
		as := r.acc[k]
		found := false
		for i := 0; i < len(as) && !found; i++ {
			for j := i + 1; j < len(as) && !found; j++ {
				a, b := as[i], as[j]
				if a.tag == b.tag || (!a.write && !b.write) || (a.atomic && b.atomic) {
					continue
				}
				common := false
				for l := range a.locks {
					if b.locks[l] {
						common = true
					}
				}
				if common || r.ordered(a, b) || r.ordered(b, a) {
					continue
				}
				if !a.ptr && !b.ptr {
					// a scalar (flag, counter, length): a stale value selects between behaviours that
					// are each legal on their own; listed, not an obligation
					e.Notes = append(e.Notes, fmt.Sprintf("unsynchronised scalar shared by the two operations (not an obligation): %s: %s (%s) and %s (%s)", shortLoc(k), a.where, rw(a.write), b.where, rw(b.write)))
					continue
				}
				found = true
				e.Notes = append(e.Notes, "replay:model-only-id:"+id)
				if os.Getenv("VERIF_RACE") != "" {
					fmt.Fprintf(os.Stderr, "RACE %s: %s (%s, locks %d) vs %s (%s, locks %d)\n", k, a.where, rw(a.write), len(a.locks), b.where, rw(b.write), len(b.locks))
				}
				e.Notes = append(e.Notes, fmt.Sprintf("conflicting unsynchronised accesses to %s: %s (%s) and %s (%s)", k, a.where, rw(a.write), b.where, rw(b.write)))
				e.fail(st, e.C.True, id+":"+shortLoc(k), a.where+" / "+b.where)
				n++
			}
		}
	}
	if n == 0 {
		e.fail(st, e.C.False, id, site)
	}
	e.race = nil
}

func pointerLike(t types.Type) bool {
	if t == nil {
		return false
	}
	switch u := t.Underlying().(type) {
	case *types.Pointer, *types.Slice, *types.Map, *types.Interface, *types.Signature, *types.Chan:
		return true
	case *types.Basic:
		return u.Kind() == types.String || u.Kind() == types.UnsafePointer
	case *types.Struct:
		for i := 0; i < u.NumFields(); i++ {
			if pointerLike(u.Field(i).Type()) {
				return true
			}
		}
	}
	return false
}

// ordered: x happens before y through a release by x's operation after x and a later acquire of the
// same object by y's operation before y.
func (r *raceState) ordered(x, y raceAcc) bool {
	if x.seq >= y.seq {
		return false
	}
	for k, acqSeq := range y.acq {
		for _, rel := range r.rels[x.tag][k] {
			if rel > x.seq && rel < acqSeq {
				return true
			}
		}
	}
	return false
}

func rw(w bool) string {
	if w {
		return "write"
	}
	return "read"
}

// shortLoc drops the allocation number so that obligation ids are stable across cases
func shortLoc(k string) string {
	i := strings.Index(k, "#")
	if i < 0 {
		return k
	}
	j := strings.Index(k[i:], ".")
	if j < 0 {
		return k[:i]
	}
	return k[:i] + k[i+j:]
}
