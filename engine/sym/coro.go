package sym

import (
	"fmt"
	"golang.org/x/tools/go/ssa"
)

// Goroutines as coroutines (go_policy "coro").
//
// Every goroutine the code under test starts becomes a coroutine of the (sequential) symbolic run:
// it is executed by its own host goroutine, but only one of them - or the harness itself - runs at a
// time; the single symbolic state (path guard + heap) is handed over at every switch. A coroutine
// runs until it finishes or reaches a blocking operation (channel operation, select, lock,
// WaitGroup.Wait) that cannot proceed; it is then parked and retries the operation when it is
// scheduled again. The harness schedules them with vfRunGoroutines(): round-robin in start order,
// each until it blocks, until nobody makes progress. The harness itself is a party as well: when
// *it* blocks, the coroutines run until its operation can proceed.
//
// Time: a select that has a timer case and no other ready case, and time.Sleep, park the coroutine
// as "waiting for time"; such a coroutine is resumed with its timer fired only when no party can
// make progress otherwise - time-outs are taken to be longer than any computation, they fire in
// start order, one at a time.
//
// This examines ONE schedule. It is used where the parties only interact through blocking FIFO
// operations (the handshake: a Kahn network, whose result does not depend on the schedule) or where
// the harness places the foreign activity itself (session manager watchers).
//
// Soundness restriction: a coroutine can only be parked while the symbolic execution is not
// forked, i.e. the readiness of the blocking operation and every branch since the last switch
// folded to constants (no pending alternative path in any frame of the coroutine). Otherwise the
// case is reported as unsupported (INCONCLUSIVE), never as a verdict.

type frameRec struct {
	queue *[]*pend
	rets  *[]retInfo
}

type execCtx struct {
	depth  int
	stack  []string
	frames []*frameRec
}

type coroMsg struct {
	st       *State
	done     bool
	timer    bool
	progress bool
	pan      interface{}
	where    string
}

type coro struct {
	id        int
	g         deferredGo
	resume    chan *State
	yield     chan coroMsg
	started   bool
	done      bool
	waitTimer bool
	retrying  bool
	where     string
	ctx       execCtx
	forked    bool // the go statement was executed while a symbolic branch was open
	root      int  // index of the goroutine started by the harness this one descends from
}

type coroAbortT struct{}

var coroAbort = &coroAbortT{}

func (e *Engine) saveCtx() execCtx {
	return execCtx{depth: e.depth, stack: e.stack, frames: e.frames}
}

func (e *Engine) loadCtx(x execCtx) {
	e.depth, e.stack, e.frames = x.depth, x.stack, x.frames
}

func (e *Engine) addCoro(st *State, cc *ssa.CallCommon, fnv, recv Value, args []Value, site string) {
	co := &coro{id: len(e.coros), g: deferredGo{cc, fnv, recv, args, site, st.G},
		resume: make(chan *State), yield: make(chan coroMsg), forked: e.isForked()}
	co.root = co.id
	if e.cur != nil {
		co.root = e.cur.root
	}
	e.coros = append(e.coros, co)
	e.Notes = append(e.Notes, "goroutine started at "+site+" runs as a coroutine (run until it blocks; scheduled by vfRunGoroutines and when the harness blocks)")
}

func (e *Engine) coroMain(co *coro) {
	r := <-co.resume
	if r == nil {
		return
	}
	st := &State{G: r.G, Heap: r.Heap}
	defer func() {
		if p := recover(); p != nil {
			if p == interface{}(coroAbort) {
				return
			}
			co.yield <- coroMsg{pan: p}
		}
	}()
	e.doCall(nil, st, co.g.cc, co.g.fnv, co.g.recv, co.g.args, co.g.site)
	co.yield <- coroMsg{st: st, done: true, progress: true}
}

// stepCoro runs co until it parks or finishes; reports whether it got anywhere.
func (e *Engine) stepCoro(st *State, co *coro, fire bool) bool {
	c := e.C
	if !co.started {
		if c.And(st.G, co.g.g).IsFalse() {
			co.done = true
			return false
		}
		// (path guards also carry the assumptions made so far, so the guard at the go statement and
		// the current one cannot be compared syntactically: the go statement must have been executed
		// on the single open path)
		if co.forked {
			// started on some paths only (the go statement was reached under a symbolic condition):
			// it is not scheduled - a legal schedule as far as it goes; anybody who waits for it
			// shows up as blocked
			co.done = true
			e.Notes = append(e.Notes, "goroutine started at "+co.g.site+" under a symbolic condition is never scheduled in this case")
			return false
		}
		co.started = true
		go e.coroMain(co)
	}
	e.switchTo(st, co.root)
	saved := e.saveCtx()
	e.loadCtx(co.ctx)
	e.cur = co
	e.fireTimer = fire
	co.resume <- &State{G: st.G, Heap: st.Heap}
	msg := <-co.yield
	co.ctx = e.saveCtx()
	e.loadCtx(saved)
	e.cur = nil
	e.fireTimer = false
	if msg.pan != nil {
		co.done = true
		panic(msg.pan)
	}
	st.G, st.Heap = msg.st.G, msg.st.Heap
	co.done, co.waitTimer, co.where = msg.done, msg.timer, msg.where
	e.switchTo(st, -1)
	return msg.progress
}

// switchTo tells the harness which party runs next (switch_hook): the harness can keep per-process
// state (package-level variables of the code under test) apart for parties that stand for
// different processes. The hook runs in the scheduler's context, between two parties.
func (e *Engine) switchTo(st *State, root int) {
	if e.SwitchHook == "" {
		return
	}
	hf := e.Pkg.Func(e.SwitchHook)
	if hf == nil {
		panic(e.unsupported("switch hook " + e.SwitchHook + " not found"))
	}
	cur := e.cur
	e.cur = nil
	in := e.inRunCoros
	e.callFunction(st, hf, []Value{IntV{e.C.BV(uint64(int64(root)), 64)}}, nil, "switch-hook")
	e.cur, e.inRunCoros = cur, in
}

// runCoros schedules the coroutines until none of them can make progress, time included.
func (e *Engine) runCoros(st *State) {
	if e.cur != nil {
		panic(e.unsupported("vfRunGoroutines inside a goroutine"))
	}
	if e.inRunCoros {
		return
	}
	e.inRunCoros = true
	defer func() { e.inRunCoros = false }()
	if e.CoroRot > 0 && !e.rotAsked {
		// which party gets to run first in every round is a shape: the schedule family is the
		// round-robin order rotated by 0..CoroRot positions
		e.rotAsked = true
		e.shapeSeq["sched.rot"]++
		key := "sched.rot#1"
		v, ok := e.Shape[key]
		if !ok {
			panic(&ShapeRequest{Name: key, Lo: 0, Hi: e.CoroRot})
		}
		e.ShapeLog = append(e.ShapeLog, fmt.Sprintf("%s=%d", key, v))
		e.rot = v
	}
	fires := 0
	for round := 0; ; round++ {
		if round > 400 {
			panic(e.unsupported("coroutine scheduler: no quiescence after 400 rounds"))
		}
		progress := false
		for i := 0; i < len(e.coros); i++ {
			co := e.coros[(i+e.rot)%len(e.coros)]
			if co.done {
				continue
			}
			if e.stepCoro(st, co, false) {
				progress = true
			}
			if st.G.IsFalse() {
				return
			}
		}
		if progress {
			continue
		}
		// time passes: the waiters' timers fire one at a time, in turn; after TimerBudget firings
		// the harness looks at the state as it is at that moment (goroutines that poll or retry
		// for ever would otherwise never let the scheduler return)
		fired := false
		if fires >= e.timerBudget() {
			break
		}
		fires++
		n := len(e.coros)
		for d := 1; d <= n; d++ {
			co := e.coros[(e.lastFired+d)%n]
			if !co.done && co.waitTimer {
				e.lastFired = (e.lastFired + d) % n
				e.stepCoro(st, co, true)
				fired = true
				break
			}
		}
		if !fired {
			break
		}
	}
	for _, co := range e.coros {
		if !co.done {
			e.checkUnforked("the harness (a goroutine stays parked at " + co.where + ")")
			break
		}
	}
}

func (e *Engine) isForked() bool {
	for _, fr := range e.frames {
		for _, p := range *fr.queue {
			if !p.st.G.IsFalse() {
				return true
			}
		}
		for _, r := range *fr.rets {
			if !r.st.G.IsFalse() {
				return true
			}
		}
	}
	return false
}

// checkUnforked: no frame of the current party has a pending alternative path.
func (e *Engine) checkUnforked(who string) {
	for _, fr := range e.frames {
		for _, p := range *fr.queue {
			if !p.st.G.IsFalse() {
				panic(e.unsupported("switch between goroutines while the symbolic execution of " + who + " is forked (a branch on symbolic data is still open)"))
			}
		}
		for _, r := range *fr.rets {
			if !r.st.G.IsFalse() {
				panic(e.unsupported("switch between goroutines while the symbolic execution of " + who + " is forked (an earlier return on symbolic data)"))
			}
		}
	}
}

// park hands the state to the scheduler and waits to be resumed; the caller retries its operation.
func (e *Engine) park(st *State, timer bool, site string) {
	co := e.cur
	e.checkUnforked("the goroutine started at " + co.g.site)
	prog := !co.retrying
	co.yield <- coroMsg{st: &State{G: st.G, Heap: st.Heap}, timer: timer, progress: prog, where: site}
	r := <-co.resume
	if r == nil {
		panic(coroAbort)
	}
	st.G, st.Heap = r.G, r.Heap
	co.retrying = true
}

func (e *Engine) timerBudget() int {
	if e.TimerBudget > 0 {
		return e.TimerBudget
	}
	return 12
}

func (e *Engine) liveCoros() bool {
	for _, co := range e.coros {
		if !co.done {
			return true
		}
	}
	return false
}

// killCoros releases the host goroutines of coroutines that are still parked (end of a case).
func (e *Engine) killCoros() {
	for _, co := range e.coros {
		if co.started && !co.done {
			co.done = true
			close(co.resume)
		}
	}
	e.coros = nil
}

// sleepOp: time.Sleep in coroutine mode waits for time like a timer case.
func (e *Engine) sleepOp(st *State, site string) {
	if e.GoPolicy != "coro" {
		return
	}
	if e.cur == nil {
		// the harness sleeps: everybody else runs first
		e.runCoros(st)
		return
	}
	for {
		if e.fireTimer {
			e.fireTimer = false
			e.cur.retrying = false
			return
		}
		e.park(st, true, site)
	}
}
