package sym

import (
	"fmt"
	"go/types"
	"strings"

	"golang.org/x/tools/go/ssa"

	"verif/engine/smt"
)

func fieldIndex(t types.Type, name string) int {
	st, ok := t.Underlying().(*types.Struct)
	if !ok {
		return -1
	}
	for i := 0; i < st.NumFields(); i++ {
		if st.Field(i).Name() == name {
			return i
		}
	}
	return -1
}

func ptrElem(t types.Type) types.Type {
	if p, ok := t.Underlying().(*types.Pointer); ok {
		return p.Elem()
	}
	return nil
}

// subPtr derives &p.field by name.
func (e *Engine) subPtr(st *State, p PtrV, structT types.Type, field string, where string) (PtrV, types.Type) {
	i := fieldIndex(structT, field)
	if i < 0 {
		panic(e.unsupported("no field " + field + " in " + structT.String()))
	}
	return e.fieldAddr(st, p, i, where), structT.Underlying().(*types.Struct).Field(i).Type()
}

func (e *Engine) errType() types.Type {
	if e.errT != nil {
		return e.errT
	}
	p := e.Prog.ImportedPackage("errors")
	if p == nil {
		panic(e.unsupported("package errors not loaded"))
	}
	e.errT = types.NewPointer(p.Type("errorString").Type())
	return e.errT
}

func (e *Engine) freshError(st *State, tag string) Value {
	t := e.errType()
	o := e.allocVal(st, ptrElem(t), StructV{F: []Value{e.opaqueString()}}, "err:"+tag)
	return IfaceV{Alts: []IfaceAlt{{G: e.C.True, T: t, V: mkPtr(e.C, o)}}}
}

func (e *Engine) libModel(st *State, fn *ssa.Function, full string, args []Value, site string) (Value, bool) {
	c := e.C
	if strings.HasPrefix(full, "sync/atomic.") {
		return e.atomicFn(st, fn, strings.TrimPrefix(full, "sync/atomic."), args, site), true
	}
	if strings.HasPrefix(full, "(*sync/atomic.") {
		// typed atomics: (*sync/atomic.Int32).Add etc. operate on field v
		rest := strings.TrimPrefix(full, "(*sync/atomic.")
		i := strings.Index(rest, ").")
		tn, m := rest[:i], rest[i+2:]
		recvT := ptrElem(fn.Signature.Recv().Type())
		if tn == "Value" {
			p, ft := e.subPtr(st, args[0].(PtrV), recvT, "v", site)
			switch m {
			case "Load":
				return e.Load(st, p, ft, site), true
			case "Store":
				e.Store(st, p, args[1], ft, site)
				return nil, true
			}
			panic(e.unsupported("atomic.Value." + m))
		}
		p, ft := e.subPtr(st, args[0].(PtrV), recvT, "v", site)
		if tn == "Bool" {
			switch m {
			case "Load":
				v := e.atomicRMW(st, "load", p, ft, nil, nil, site).(IntV)
				return BoolV{c.Ne(v.T, c.BV(0, 32))}, true
			case "Store":
				b := args[1].(BoolV).T
				e.atomicRMW(st, "store", p, ft, IntV{c.Ite(b, c.BV(1, 32), c.BV(0, 32))}, nil, site)
				return nil, true
			}
			panic(e.unsupported("atomic.Bool." + m))
		}
		switch m {
		case "Load":
			return e.atomicRMW(st, "load", p, ft, nil, nil, site), true
		case "Store":
			e.atomicRMW(st, "store", p, ft, args[1], nil, site)
			return nil, true
		case "Add":
			return e.atomicRMW(st, "add", p, ft, args[1], nil, site), true
		case "CompareAndSwap":
			return e.atomicRMW(st, "cas", p, ft, args[1], args[2], site), true
		case "Swap":
			return e.atomicRMW(st, "swap", p, ft, args[1], nil, site), true
		}
		panic(e.unsupported("typed atomic " + full))
	}
	switch full {
	case "(*sync.Mutex).Lock", "(*sync.RWMutex).Lock":
		e.mutexOp(st, args[0].(PtrV), fn, "lock", site)
		return nil, true
	case "(*sync.Mutex).Unlock", "(*sync.RWMutex).Unlock":
		e.mutexOp(st, args[0].(PtrV), fn, "unlock", site)
		return nil, true
	case "(*sync.RWMutex).RLock":
		e.mutexOp(st, args[0].(PtrV), fn, "rlock", site)
		return nil, true
	case "(*sync.RWMutex).RUnlock":
		e.mutexOp(st, args[0].(PtrV), fn, "runlock", site)
		return nil, true
	case "(*sync.Mutex).TryLock":
		return e.mutexOp(st, args[0].(PtrV), fn, "trylock", site), true
	case "(*sync.Pool).Get":
		recvT := ptrElem(fn.Signature.Recv().Type())
		p, ft := e.subPtr(st, args[0].(PtrV), recvT, "New", site)
		nf := e.Load(st, p, ft, site).(FuncV)
		e.StubsUsed["(*sync.Pool).Get -> always New()"]++
		if len(nf.Alts) == 1 && nf.Alts[0].Fn != nil {
			return e.callFunction(st, nf.Alts[0].Fn, nil, nf.Alts[0].Bind, site), true
		}
		panic(e.unsupported("sync.Pool without New"))
	case "(*sync.Pool).Put":
		return nil, true
	case "(*sync.Once).Do":
		recvT := ptrElem(fn.Signature.Recv().Type())
		p, _ := e.subPtr(st, args[0].(PtrV), recvT, "m", site)
		mT := recvT.Underlying().(*types.Struct).Field(fieldIndex(recvT, "m")).Type()
		sp, sT := e.subPtr(st, p, mT, "sema", site)
		done := e.Load(st, sp, sT, site).(IntV).T
		isDone := c.Ne(done, c.BV(0, 32))
		if isDone.IsTrue() {
			return nil, true
		}
		f := args[1].(FuncV)
		if isDone.IsFalse() {
			e.Store(st, sp, IntV{c.BV(1, 32)}, sT, site)
			e.doCall(nil, st, &ssa.CallCommon{}, f, nil, nil, site)
			return nil, true
		}
		run := &State{G: c.And(st.G, c.Not(isDone)), Heap: cloneHeap(st.Heap), Th: st.Th}
		skip := &State{G: c.And(st.G, isDone), Heap: st.Heap, Th: st.Th}
		e.Store(run, sp, IntV{c.BV(1, 32)}, sT, site)
		e.doCall(nil, run, &ssa.CallCommon{}, f, nil, nil, site)
		m := e.mergeStates(run, skip)
		st.G, st.Heap = m.G, m.Heap
		return nil, true
	case "(*sync.WaitGroup).Add", "(*sync.WaitGroup).Done", "(*sync.WaitGroup).Wait":
		if !e.inAtomicAcc {
			e.inAtomicAcc = true
			defer func() { e.inAtomicAcc = false }()
		}
		recvT := ptrElem(fn.Signature.Recv().Type())
		sp, sT := e.subPtr(st, args[0].(PtrV), recvT, "sema", site)
		cur := e.Load(st, sp, sT, site).(IntV).T
		switch fn.Name() {
		case "Add":
			d := c.Resize(args[1].(IntV).T, 32, true)
			nv := c.Add(cur, d)
			e.fail(st, c.Slt(nv, c.BV(0, 32)), "nopanic:negative-waitgroup", site)
			e.Store(st, sp, IntV{nv}, sT, site)
		case "Done":
			nv := c.Sub(cur, c.BV(1, 32))
			e.fail(st, c.Slt(nv, c.BV(0, 32)), "nopanic:negative-waitgroup", site)
			e.Store(st, sp, IntV{nv}, sT, site)
		case "Wait":
			for e.blockUntil(st, c.Eq(cur, c.BV(0, 32)), "waitgroup", site) {
				cur = e.Load(st, sp, sT, site).(IntV).T
			}
		}
		return nil, true
	case "runtime.Gosched", "runtime.KeepAlive", "runtime.SetFinalizer":
		return nil, true
	case "fmt.Errorf":
		return e.freshError(st, "fmt.Errorf"), true
	case "fmt.Sprintf", "fmt.Sprint", "strconv.Itoa", "strconv.FormatUint", "strconv.FormatInt", "(time.Duration).String", "path/filepath.Dir", "path/filepath.Join":
		return e.opaqueString(), true
	case "fmt.Println", "fmt.Printf", "fmt.Fprintf", "fmt.Print":
		return e.zeroResults(fn), true
	case "(*errors.errorString).Error":
		p, ft := e.subPtr(st, args[0].(PtrV), ptrElem(fn.Signature.Recv().Type()), "s", site)
		return e.Load(st, p, ft, site), true
	case "strings.Contains", "strings.HasPrefix", "strings.HasSuffix":
		return BoolV{c.Fresh("strpred", 0)}, true
	case "os.Getpid":
		return IntV{c.BV(4242, 64)}, true
	case "os.Getenv":
		s := ""
		return StringV{S: &s}, true
	case "github.com/bytedance/gopkg/lang/dirtmake.Bytes":
		r := e.makeSlice(st, fn.Signature.Results().At(0).Type(), args[0].(IntV).T, args[1].(IntV).T, types.Typ[types.Int], site, false)
		return r, true
	case "github.com/bytedance/gopkg/util/gopool.Go":
		e.spawnFunc(st, args[0].(FuncV), site)
		return nil, true
	case "github.com/cloudwego/shmipc-go.string2bytesZeroCopy":
		v := e.stringView(args[0].(StringV))
		return SliceV{P: v.P, Len: v.Len, Cap: v.Len}, true
	case "github.com/cloudwego/shmipc-go.isArmArch":
		return BoolV{c.False}, true
	case "math/rand.Uint64", "math/rand.Int63":
		return IntV{c.Fresh("rand", 64)}, true
	case "math/rand.Intn", "math/rand.Int":
		return IntV{c.Fresh("rand", 64)}, true
	}
	if strings.HasPrefix(full, "time.") || strings.HasPrefix(full, "(time.") || strings.HasPrefix(full, "(*time.") {
		return e.timeModel(st, fn, full, args, site)
	}
	return nil, false
}

// atomicFn: sync/atomic package-level functions.
func (e *Engine) atomicFn(st *State, fn *ssa.Function, name string, args []Value, site string) Value {
	p := args[0].(PtrV)
	et := ptrElem(fn.Signature.Params().At(0).Type())
	switch {
	case strings.HasPrefix(name, "Load"):
		return e.atomicRMW(st, "load", p, et, nil, nil, site)
	case strings.HasPrefix(name, "Store"):
		e.atomicRMW(st, "store", p, et, args[1], nil, site)
		return nil
	case strings.HasPrefix(name, "Add"):
		return e.atomicRMW(st, "add", p, et, args[1], nil, site)
	case strings.HasPrefix(name, "CompareAndSwap"):
		return e.atomicRMW(st, "cas", p, et, args[1], args[2], site)
	case strings.HasPrefix(name, "Swap"):
		return e.atomicRMW(st, "swap", p, et, args[1], nil, site)
	}
	panic(e.unsupported("sync/atomic." + name))
}

// atomicRMW performs one atomic operation on *p.
func (e *Engine) atomicRMW(st *State, kind string, p PtrV, et types.Type, a, b Value, site string) Value {
	c := e.C
	for _, al := range p.Alts {
		if al.Obj != nil {
			e.ensureHeap(st, al.Obj)
		}
	}
	if st.Th != nil {
		if v, ok := e.sharedAtomic(st, kind, p, et, a, b, site); ok {
			return v
		}
	}
	// one atomic operation is one access for the stall hook
	if (e.hookObj != nil || e.hookSync) && !e.inAtomicOp {
		if e.hookSync {
			e.hookTick(st, nil, site, true)
		} else {
			for _, al := range p.Alts {
				if al.Obj != nil {
					e.hookTick(st, al.Obj, site, true)
				}
			}
		}
		e.inAtomicOp = true
		defer func() { e.inAtomicOp = false }()
	}
	if !e.inAtomicAcc {
		e.inAtomicAcc = true
		defer func() { e.inAtomicAcc = false }()
	}
	if e.race != nil {
		for _, al := range p.Alts {
			if al.Obj != nil && !al.G.IsFalse() {
				e.raceSync(al.Obj.String()+selKey(al.Path), kind != "store", kind != "load")
			}
		}
	}
	switch kind {
	case "load":
		return e.Load(st, p, et, site)
	case "store":
		e.Store(st, p, a, et, site)
		return nil
	case "add":
		cur := e.Load(st, p, et, site).(IntV)
		nv := IntV{c.Add(cur.T, a.(IntV).T)}
		e.Store(st, p, nv, et, site)
		return nv
	case "swap":
		cur := e.Load(st, p, et, site)
		e.Store(st, p, a, et, site)
		return cur
	case "cas":
		cur := e.Load(st, p, et, site)
		var eq smt.Term
		switch x := cur.(type) {
		case IntV:
			eq = c.Eq(x.T, a.(IntV).T)
		case PtrV:
			eq = ptrEq(c, x, a.(PtrV))
		default:
			panic(e.unsupported("cas on non-scalar"))
		}
		e.Store(st, p, e.Merge(eq, b, cur), et, site)
		return BoolV{eq}
	}
	panic("atomicRMW")
}

// mutexOp: sequential model on the `state` (Mutex) / writerSem,readerSem (RWMutex) fields.
func (e *Engine) mutexOp(st *State, p PtrV, fn *ssa.Function, op string, site string) Value {
	c := e.C
	if !e.inAtomicAcc {
		e.inAtomicAcc = true
		defer func() { e.inAtomicAcc = false }()
	}
	recvT := ptrElem(fn.Signature.Recv().Type())
	for _, al := range p.Alts {
		if al.Obj != nil {
			e.ensureHeap(st, al.Obj)
		}
	}
	if st.Th != nil {
		if e.sharedMutex(st, p, recvT, op, site) {
			return nil
		}
	}
	isRW := strings.HasSuffix(recvT.String(), "RWMutex")
	var wp, rp PtrV
	var wT, rT types.Type
	if isRW {
		wp, wT = e.subPtr(st, p, recvT, "writerSem", site)
		rp, rT = e.subPtr(st, p, recvT, "readerSem", site)
	} else {
		wp, wT = e.subPtr(st, p, recvT, "sema", site)
	}
	if op == "lock" || op == "rlock" {
		e.hookTick(st, nil, site, false)
	}
	w := e.Load(st, wp, wT, site).(IntV).T
	zero := c.BV(0, 32)
	switch op {
	case "lock":
		for {
			free := c.Eq(w, zero)
			if isRW {
				r := e.Load(st, rp, rT, site).(IntV).T
				free = c.And(free, c.Eq(r, zero))
			}
			if !e.blockUntil(st, free, "mutex", site) {
				break
			}
			w = e.Load(st, wp, wT, site).(IntV).T
		}
		e.Store(st, wp, IntV{c.BV(1, 32)}, wT, site)
		for _, al := range p.Alts {
			if al.Obj != nil {
				e.raceLock(al.Obj, 1)
			}
		}
	case "trylock":
		free := c.Eq(w, zero)
		e.Store(st, wp, IntV{c.Ite(free, c.BV(1, 32), w)}, wT, site)
		return BoolV{free}
	case "unlock":
		e.fail(st, c.Eq(w, zero), "nopanic:unlock-of-unlocked-mutex", site)
		e.Store(st, wp, IntV{zero}, wT, site)
		for _, al := range p.Alts {
			if al.Obj != nil {
				e.raceLock(al.Obj, -1)
			}
		}
	case "rlock":
		for e.blockUntil(st, c.Eq(w, zero), "rwmutex", site) {
			w = e.Load(st, wp, wT, site).(IntV).T
		}
		r := e.Load(st, rp, rT, site).(IntV).T
		e.Store(st, rp, IntV{c.Add(r, c.BV(1, 32))}, rT, site)
		for _, al := range p.Alts {
			if al.Obj != nil {
				e.raceLock(al.Obj, 1)
			}
		}
	case "runlock":
		r := e.Load(st, rp, rT, site).(IntV).T
		e.fail(st, c.Eq(r, zero), "nopanic:runlock-of-unlocked-rwmutex", site)
		e.Store(st, rp, IntV{c.Sub(r, c.BV(1, 32))}, rT, site)
		for _, al := range p.Alts {
			if al.Obj != nil {
				e.raceLock(al.Obj, -1)
			}
		}
	}
	return nil
}

// blockUntil: in sequential code a blocking operation whose condition is false can never proceed:
// that is a deadlock of the (single-threaded) harness, reported as an obligation.
// In coroutine mode (go_policy coro) a party that cannot proceed is parked / lets the others run,
// and the result true tells the caller to evaluate its operation again on the state it got back.
func (e *Engine) blockUntil(st *State, ready smt.Term, what, site string) bool {
	if e.hookBusy {
		// the hook's adversary stands for other goroutines running while the main one is stopped
		// at the hook point: where it would have to wait for the stopped goroutine, this stopping
		// point is not one after which the adversary can run to completion
		e.assume(st, ready)
		return false
	}
	if e.GoPolicy == "coro" && !st.G.IsFalse() && st.Th == nil {
		c := e.C
		if c.And(st.G, c.Not(ready)).IsFalse() {
			if e.cur != nil {
				e.cur.retrying = false
			} else {
				e.mainRetrying = false
			}
			return false
		}
		definite := c.And(st.G, ready).IsFalse()
		if e.cur != nil {
			if !definite {
				panic(e.unsupported("blocking operation (" + what + ") whose readiness depends on symbolic data inside a goroutine at " + site + " (go_policy coro)"))
			}
			e.park(st, false, site)
			return true
		}
		if definite && !e.mainRetrying && e.liveCoros() {
			// the harness waits: the goroutines run until nobody can go on, then it tries again
			e.runCoros(st)
			e.mainRetrying = true
			return true
		}
		e.mainRetrying = false
	}
	if e.hookSync && e.hookCnt != nil && st.Th == nil {
		// a sync-point hook is armed and has not fired yet: the main computation would block
		// before reaching the stopping point - this cut is beyond what the call executes
		if cv, ok := st.Heap[e.hookCnt].(Value); ok {
			c := e.C
			e.assume(st, c.Or(ready, c.Slt(cv.(IntV).T, c.BV(0, 64))))
		}
	}
	e.fail(st, e.C.Not(ready), "noblock:"+what, site)
	return false
}

func (e *Engine) timeModel(st *State, fn *ssa.Function, full string, args []Value, site string) (Value, bool) {
	c := e.C
	mkTime := func(t smt.Term) Value {
		return StructV{F: []Value{IntV{c.BV(0, 64)}, IntV{t}, nilPtr(c)}}
	}
	nanos := func(v Value) smt.Term { return v.(StructV).F[1].(IntV).T }
	switch full {
	case "time.Now":
		// non-decreasing symbolic clock
		t := c.Fresh("now", 64)
		e.assume(st, c.And(c.Sge(t, e.clock(st)), c.Slt(t, c.BV(1<<62, 64))))
		e.setClock(st, t)
		return mkTime(t), true
	case "(time.Time).IsZero":
		return BoolV{c.Eq(nanos(args[0]), c.BV(0, 64))}, true
	case "(time.Time).Sub":
		return IntV{c.Sub(nanos(args[0]), nanos(args[1]))}, true
	case "(time.Time).Add":
		return mkTime(c.Add(nanos(args[0]), args[1].(IntV).T)), true
	case "(time.Time).Before":
		return BoolV{c.Slt(nanos(args[0]), nanos(args[1]))}, true
	case "(time.Time).After":
		return BoolV{c.Sgt(nanos(args[0]), nanos(args[1]))}, true
	case "(time.Time).UnixNano", "(time.Time).Unix":
		return IntV{nanos(args[0])}, true
	case "time.Since":
		t := c.Fresh("now", 64)
		e.assume(st, c.And(c.Sge(t, e.clock(st)), c.Slt(t, c.BV(1<<62, 64))))
		e.setClock(st, t)
		return IntV{c.Sub(t, nanos(args[0]))}, true
	case "time.Until":
		t := c.Fresh("now", 64)
		e.assume(st, c.And(c.Sge(t, e.clock(st)), c.Slt(t, c.BV(1<<62, 64))))
		e.setClock(st, t)
		return IntV{c.Sub(nanos(args[0]), t)}, true
	case "time.Sleep":
		e.sleepOp(st, site)
		return nil, true
	case "time.After":
		// a channel that delivers one tick; like every timer it is taken only when nothing else is ready
		chT := fn.Signature.Results().At(0).Type()
		o := e.newObj(KChan, chT, 1, "timer.C")
		tick := e.zero(chT.Underlying().(*types.Chan).Elem())
		st.Heap[o] = &ChanContent{Cap: 1, Count: c.BV(1, 32), Slots: []Value{tick}, Closed: c.False}
		e.StubsUsed[full+" -> expired-timer model"]++
		return mkPtr(c, o), true
	case "(*time.Ticker).Stop":
		return nil, true
	case "time.NewTimer", "time.AfterFunc", "time.NewTicker":
		// A timer is modelled as already expired: its channel holds one tick. Code that selects
		// on it together with other channels takes the other ready cases first (sequential select
		// examines cases in source order; the code under test lists timers last except for pure
		// retry pauses), i.e. "time passes when nothing else can happen". AfterFunc's function is
		// never run (its effect is outside every check that reaches it).
		tt := ptrElem(fn.Signature.Results().At(0).Type())
		tv := e.zero(tt).(StructV)
		ci := fieldIndex(tt, "C")
		chT := tt.Underlying().(*types.Struct).Field(ci).Type()
		o := e.newObj(KChan, chT, 1, "timer.C")
		tick := e.zero(chT.Underlying().(*types.Chan).Elem())
		cnt := c.BV(1, 32)
		if full == "time.AfterFunc" {
			cnt = c.BV(0, 32)
		}
		ccn := &ChanContent{Cap: 1, Count: cnt, Slots: []Value{tick}, Closed: c.False}
		if full == "time.NewTicker" {
			// a ticker delivers TickerTicks ticks, then time is considered to have passed beyond
			// whatever timeout it is paired with (the timer's case is taken next)
			ccn.Refill = e.TickerTicks - 1
		}
		st.Heap[o] = ccn
		nf := append([]Value{}, tv.F...)
		nf[ci] = mkPtr(c, o)
		to := e.allocVal(st, tt, StructV{nf}, "timer")
		e.StubsUsed[full+" -> expired-timer model"]++
		return mkPtr(c, to), true
	case "(*time.Timer).Stop", "(*time.Timer).Reset":
		tt := ptrElem(fn.Signature.Recv().Type())
		cp, cT := e.subPtr(st, args[0].(PtrV), tt, "C", site)
		chv := e.Load(st, cp, cT, site).(PtrV)
		wasArmed := c.False
		for _, al := range e.chanAlts(st, chv) {
			if al.o == nil {
				continue
			}
			empty := c.Eq(al.cc.Count, c.BV(0, 32))
			wasArmed = c.Or(wasArmed, c.And(al.g, empty))
			if fn.Name() == "Reset" {
				st.Heap[al.o] = &ChanContent{Cap: al.cc.Cap, Closed: al.cc.Closed, Slots: al.cc.Slots,
					Count: c.Ite(al.g, c.BV(1, 32), al.cc.Count)}
			}
		}
		// Stop/Reset report whether the timer had been active (not yet expired)
		return BoolV{wasArmed}, true
	case "(time.Duration).Seconds", "(time.Duration).Milliseconds":
		if fn.Signature.Results().At(0).Type().String() == "float64" {
			return OpaqueV{Tag: "float"}, true
		}
		return IntV{c.SDiv(args[0].(IntV).T, c.BV(1000000, 64))}, true
	}
	return nil, false
}

func (e *Engine) clock(st *State) smt.Term {
	if e.clockObj == nil {
		return e.C.BV(1, 64)
	}
	if v, ok := st.Heap[e.clockObj]; ok {
		return v.(Value).(IntV).T
	}
	return e.C.BV(1, 64)
}

func (e *Engine) setClock(st *State, t smt.Term) {
	if e.clockObj == nil {
		e.clockObj = e.newObj(KVal, types.Typ[types.Int64], 0, "clock")
		e.clockObj.Thread = -1
	}
	st.Heap[e.clockObj] = Value(IntV{t})
}

var _ = fmt.Sprintf
