package smt

import (
	"bufio"
	"fmt"
	"io"
	"os"
	"os/exec"
	"strconv"
	"strings"
	"sync"
	"time"
)

type Result int

const (
	Unsat Result = iota
	Sat
	Unknown
)

func (r Result) String() string {
	switch r {
	case Unsat:
		return "unsat"
	case Sat:
		return "sat"
	}
	return "unknown"
}

// Backend describes one solver command line.
type Backend struct {
	Name string
	Argv []string
	// TimeoutOpt renders the per-query timeout option line (may be empty).
	TimeoutOpt func(ms int) string
}

var Backends = map[string]Backend{
	"z3": {Name: "z3", Argv: []string{"z3", "-in", "-smt2"},
		TimeoutOpt: func(ms int) string { return fmt.Sprintf("(set-option :timeout %d)", ms) }},
	"z3-new": {Name: "z3-new", Argv: []string{"z3-new", "-in", "-smt2"},
		TimeoutOpt: func(ms int) string { return fmt.Sprintf("(set-option :timeout %d)", ms) }},
	"cvc5": {Name: "cvc5", Argv: []string{"cvc5", "--incremental", "--produce-models", "--lang=smt2"},
		TimeoutOpt: func(ms int) string { return "" }},
	"cvc5-int": {Name: "cvc5-int", Argv: []string{"cvc5", "--incremental", "--produce-models", "--lang=smt2", "--solve-bv-as-int=sum"},
		TimeoutOpt: func(ms int) string { return "" }},
}

// Solver is one long-lived solver process bound to one Ctx at a time.
type Solver struct {
	B        Backend
	cmd      *exec.Cmd
	in       io.WriteCloser
	out      *bufio.Reader
	defined  map[int]bool
	lines    chan string
	Queries  int
	Seconds  float64
	Log      io.Writer // optional: every line sent
	Restarts int
	ndefs    int
	mu       sync.Mutex
	OneShot  bool
	oneshot  *exec.Cmd
	Cancel   chan struct{} // closed by the caller to abandon the running one-shot query
}

func NewSolver(backend string) (*Solver, error) {
	b, ok := Backends[backend]
	if !ok {
		return nil, fmt.Errorf("unknown backend %s", backend)
	}
	s := &Solver{B: b, OneShot: true}
	return s, nil
}

func (s *Solver) start() error {
	s.mu.Lock()
	defer s.mu.Unlock()
	s.cmd = exec.Command(s.B.Argv[0], s.B.Argv[1:]...)
	var err error
	s.in, err = s.cmd.StdinPipe()
	if err != nil {
		return err
	}
	op, err := s.cmd.StdoutPipe()
	if err != nil {
		return err
	}
	s.cmd.Stderr = os.Stderr
	if err := s.cmd.Start(); err != nil {
		return err
	}
	s.out = bufio.NewReaderSize(op, 1<<20)
	s.defined = map[int]bool{}
	s.ndefs = 0
	s.lines = make(chan string, 1024)
	go func(r *bufio.Reader, ch chan string) {
		for {
			l, err := r.ReadString('\n')
			if len(l) > 0 {
				ch <- strings.TrimRight(l, "\n")
			}
			if err != nil {
				close(ch)
				return
			}
		}
	}(s.out, s.lines)
	s.send("(set-option :print-success false)")
	if strings.HasPrefix(s.B.Name, "z3") {
		s.send("(set-option :produce-models true)")
	} else {
		s.send("(set-logic ALL)")
	}
	return nil
}

func (s *Solver) send(l string) {
	if s.Log != nil {
		fmt.Fprintln(s.Log, l)
	}
	io.WriteString(s.in, l)
	io.WriteString(s.in, "\n")
}

func (s *Solver) Close() {
	s.mu.Lock()
	defer s.mu.Unlock()
	if s.cmd != nil && s.cmd.Process != nil {
		s.in.Close()
		s.cmd.Process.Kill()
		s.cmd.Wait()
		s.cmd = nil
	}
}

// Interrupt kills the solver process from another goroutine; a blocked Check returns Unknown.
func (s *Solver) Interrupt() {
	s.mu.Lock()
	defer s.mu.Unlock()
	if s.cmd != nil && s.cmd.Process != nil && !s.OneShot {
		s.cmd.Process.Kill()
	}
	if s.oneshot != nil && s.oneshot.Process != nil {
		s.oneshot.Process.Kill()
	}
}

// Reset forgets all definitions (new Ctx or too many definitions).
func (s *Solver) Reset() {
	if s.OneShot {
		return
	}
	s.Close()
	if err := s.start(); err != nil {
		panic(err)
	}
	s.Restarts++
}

func (s *Solver) define(roots []*Node) []*Node {
	var defs, vars []*Node
	TopoFrom(roots, s.defined, &defs, &vars)
	var sb strings.Builder
	for _, v := range vars {
		fmt.Fprintf(&sb, "(declare-const %s %s)\n", VarSym(v.Name), SortStr(v.W))
	}
	for _, d := range defs {
		fmt.Fprintf(&sb, "(define-fun n%d () %s %s)\n", d.ID, SortStr(d.W), Body(d))
	}
	s.ndefs += len(defs)
	if sb.Len() > 0 {
		if s.Log != nil {
			io.WriteString(s.Log, sb.String())
		}
		io.WriteString(s.in, sb.String())
	}
	return vars
}

// checkOneShot runs a fresh solver process on a self-contained script (tactic-based solving in
// z3 is only used outside incremental mode, which is worth far more than process start-up).
func (s *Solver) checkOneShot(assertions []*Node, modelVars []*Node, timeoutMs int) (Result, map[string]uint64, error) {
	var defs, vars []*Node
	done := map[int]bool{}
	roots := append(append([]*Node{}, assertions...), modelVars...)
	TopoFrom(roots, done, &defs, &vars)
	var sb strings.Builder
	sb.WriteString("(set-option :print-success false)\n")
	if strings.HasPrefix(s.B.Name, "z3") {
		sb.WriteString("(set-option :produce-models true)\n")
		if o := s.B.TimeoutOpt(timeoutMs); o != "" {
			sb.WriteString(o + "\n")
		}
	}
	sb.WriteString("(set-logic QF_BV)\n")
	for _, v := range vars {
		fmt.Fprintf(&sb, "(declare-const %s %s)\n", VarSym(v.Name), SortStr(v.W))
	}
	for _, d := range defs {
		fmt.Fprintf(&sb, "(define-fun n%d () %s %s)\n", d.ID, SortStr(d.W), Body(d))
	}
	for _, a := range assertions {
		sb.WriteString("(assert " + Ref(a) + ")\n")
	}
	sb.WriteString("(check-sat)\n")
	for i := 0; i < len(modelVars); i += 200 {
		j := i + 200
		if j > len(modelVars) {
			j = len(modelVars)
		}
		sb.WriteString("(get-value (")
		for _, v := range modelVars[i:j] {
			sb.WriteString(Ref(v))
			sb.WriteByte(' ')
		}
		sb.WriteString("))\n")
	}
	sb.WriteString("(exit)\n")
	argv := append([]string{}, s.B.Argv[1:]...)
	// drop flags of the interactive mode
	var args []string
	for _, a := range argv {
		if a == "--incremental" {
			continue
		}
		args = append(args, a)
	}
	if s.B.Name != "z3" && s.B.Name != "z3-new" {
		args = append(args, fmt.Sprintf("--tlimit=%d", timeoutMs))
	}
	cmd := exec.Command(s.B.Argv[0], args...)
	cmd.Stdin = strings.NewReader(sb.String())
	if s.Log != nil {
		io.WriteString(s.Log, sb.String())
	}
	var out strings.Builder
	cmd.Stdout = &out
	s.mu.Lock()
	if err := cmd.Start(); err != nil {
		s.mu.Unlock()
		return Unknown, nil, err
	}
	s.oneshot = cmd
	s.mu.Unlock()
	doneCh := make(chan error, 1)
	go func() { doneCh <- cmd.Wait() }()
	select {
	case <-doneCh:
	case <-s.Cancel:
		cmd.Process.Kill()
		<-doneCh
		return Unknown, nil, nil
	case <-time.After(time.Duration(timeoutMs+5000) * time.Millisecond):
		cmd.Process.Kill()
		<-doneCh
	}
	s.mu.Lock()
	s.oneshot = nil
	s.mu.Unlock()
	txt := out.String()
	lines := strings.SplitN(strings.TrimLeft(txt, " \n"), "\n", 2)
	if len(lines) == 0 {
		return Unknown, nil, nil
	}
	first := strings.TrimSpace(lines[0])
	switch first {
	case "unsat":
		return Unsat, nil, nil
	case "sat":
		model := map[string]uint64{}
		if len(modelVars) > 0 && len(lines) > 1 {
			rest := lines[1]
			// consecutive get-value answers: parse each balanced s-expression
			for _, sx := range splitSexps(rest) {
				if strings.HasPrefix(strings.TrimSpace(sx), "(error") {
					return Unknown, nil, fmt.Errorf("solver %s: %s", s.B.Name, sx)
				}
				if err := parseValues(sx, model); err != nil {
					return Unknown, nil, err
				}
			}
		}
		return Sat, model, nil
	}
	if strings.HasPrefix(first, "(error") {
		return Unknown, nil, fmt.Errorf("solver %s: %s", s.B.Name, first)
	}
	return Unknown, nil, nil
}

func splitSexps(txt string) []string {
	var out []string
	depth := 0
	start := -1
	inBar := false
	for i, ch := range txt {
		if ch == '|' {
			inBar = !inBar
		}
		if inBar {
			continue
		}
		if ch == '(' {
			if depth == 0 {
				start = i
			}
			depth++
		} else if ch == ')' {
			depth--
			if depth == 0 && start >= 0 {
				out = append(out, txt[start:i+1])
				start = -1
			}
		}
	}
	return out
}

// Check decides the conjunction of assertions. modelVars: variables whose values to fetch when sat.
func (s *Solver) Check(assertions []*Node, modelVars []*Node, timeoutMs int) (Result, map[string]uint64, error) {
	t0 := time.Now()
	defer func() { s.Seconds += time.Since(t0).Seconds(); s.Queries++ }()
	if s.OneShot {
		for _, a := range assertions {
			if a.IsFalse() {
				return Unsat, nil, nil
			}
		}
		return s.checkOneShot(assertions, modelVars, timeoutMs)
	}
	if s.ndefs > 3000000 {
		s.Reset()
	}
	// trivial cases
	allTrue := true
	for _, a := range assertions {
		if a.IsFalse() {
			return Unsat, nil, nil
		}
		if !a.IsTrue() {
			allTrue = false
		}
	}
	_ = allTrue
	roots := append([]*Node{}, assertions...)
	roots = append(roots, modelVars...)
	s.define(roots)
	if o := s.B.TimeoutOpt(timeoutMs); o != "" {
		s.send(o)
	}
	s.send("(push 1)")
	for _, a := range assertions {
		s.send("(assert " + Ref(a) + ")")
	}
	s.send("(check-sat)")
	deadline := time.After(time.Duration(timeoutMs+3000) * time.Millisecond)
	var ans string
	for ans == "" {
		select {
		case l, ok := <-s.lines:
			if !ok {
				s.Reset()
				return Unknown, nil, nil
			}
			l = strings.TrimSpace(l)
			if l == "" {
				continue
			}
			if strings.HasPrefix(l, "(error") {
				s.Reset()
				return Unknown, nil, fmt.Errorf("solver %s: %s", s.B.Name, l)
			}
			ans = l
		case <-deadline:
			s.Reset()
			return Unknown, nil, nil
		}
	}
	var res Result
	switch ans {
	case "sat":
		res = Sat
	case "unsat":
		res = Unsat
	default:
		res = Unknown
	}
	var model map[string]uint64
	if res == Sat && len(modelVars) > 0 {
		model = map[string]uint64{}
		// chunk the get-value requests
		for i := 0; i < len(modelVars); i += 200 {
			j := i + 200
			if j > len(modelVars) {
				j = len(modelVars)
			}
			var sb strings.Builder
			sb.WriteString("(get-value (")
			for _, v := range modelVars[i:j] {
				sb.WriteString(Ref(v))
				sb.WriteByte(' ')
			}
			sb.WriteString("))")
			s.send(sb.String())
			txt, err := s.readSexp(time.Duration(20) * time.Second)
			if err != nil {
				s.Reset()
				return Unknown, nil, err
			}
			if err := parseValues(txt, model); err != nil {
				s.Reset()
				return Unknown, nil, err
			}
		}
	}
	s.send("(pop 1)")
	return res, model, nil
}

// readSexp reads lines until parentheses balance.
func (s *Solver) readSexp(to time.Duration) (string, error) {
	var sb strings.Builder
	depth := 0
	started := false
	inBar := false
	deadline := time.After(to)
	for {
		select {
		case l, ok := <-s.lines:
			if !ok {
				return "", fmt.Errorf("solver died in get-value")
			}
			if strings.HasPrefix(strings.TrimSpace(l), "(error") {
				return "", fmt.Errorf("solver: %s", l)
			}
			for _, ch := range l {
				if ch == '|' {
					inBar = !inBar
				}
				if inBar {
					continue
				}
				if ch == '(' {
					depth++
					started = true
				} else if ch == ')' {
					depth--
				}
			}
			sb.WriteString(l)
			sb.WriteByte('\n')
			if started && depth == 0 {
				return sb.String(), nil
			}
		case <-deadline:
			return "", fmt.Errorf("timeout reading model")
		}
	}
}

func parseValues(txt string, model map[string]uint64) error {
	// tokens: ( ( |name| value ) ... ), value = #x.. | #b.. | true | false | (_ bvN W)
	i := 0
	n := len(txt)
	skip := func() {
		for i < n && (txt[i] == ' ' || txt[i] == '\n' || txt[i] == '\t' || txt[i] == '\r') {
			i++
		}
	}
	skip()
	if i >= n || txt[i] != '(' {
		return fmt.Errorf("bad get-value output: %q", txt)
	}
	i++
	for {
		skip()
		if i >= n {
			return fmt.Errorf("bad get-value output (eof)")
		}
		if txt[i] == ')' {
			return nil
		}
		if txt[i] != '(' {
			return fmt.Errorf("bad get-value pair at %d: %q", i, txt[i:mini(n, i+40)])
		}
		i++
		skip()
		var name string
		if txt[i] == '|' {
			j := strings.IndexByte(txt[i+1:], '|')
			name = txt[i+1 : i+1+j]
			i = i + 1 + j + 1
		} else {
			j := i
			for j < n && txt[j] != ' ' && txt[j] != ')' && txt[j] != '\n' {
				j++
			}
			name = txt[i:j]
			i = j
		}
		skip()
		var val uint64
		switch {
		case strings.HasPrefix(txt[i:], "#x"):
			j := i + 2
			for j < n && isHex(txt[j]) {
				j++
			}
			v, err := strconv.ParseUint(txt[i+2:j], 16, 64)
			if err != nil {
				return err
			}
			val = v
			i = j
		case strings.HasPrefix(txt[i:], "#b"):
			j := i + 2
			for j < n && (txt[j] == '0' || txt[j] == '1') {
				j++
			}
			v, err := strconv.ParseUint(txt[i+2:j], 2, 64)
			if err != nil {
				return err
			}
			val = v
			i = j
		case strings.HasPrefix(txt[i:], "true"):
			val = 1
			i += 4
		case strings.HasPrefix(txt[i:], "false"):
			val = 0
			i += 5
		case strings.HasPrefix(txt[i:], "(_ bv"):
			j := i + 5
			k := j
			for k < n && txt[k] >= '0' && txt[k] <= '9' {
				k++
			}
			v, err := strconv.ParseUint(txt[j:k], 10, 64)
			if err != nil {
				return err
			}
			val = v
			for k < n && txt[k] != ')' {
				k++
			}
			i = k + 1
		default:
			return fmt.Errorf("bad value at %d: %q", i, txt[i:mini(n, i+40)])
		}
		model[name] = val
		skip()
		if i >= n || txt[i] != ')' {
			return fmt.Errorf("bad get-value pair end at %d: %q", i, txt[i:mini(n, i+40)])
		}
		i++
	}
}

func isHex(b byte) bool {
	return (b >= '0' && b <= '9') || (b >= 'a' && b <= 'f') || (b >= 'A' && b <= 'F')
}

func mini(a, b int) int {
	if a < b {
		return a
	}
	return b
}
