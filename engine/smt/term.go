// Package smt: hash-consed SMT terms (Bool and fixed-width bit-vectors up to 64 bits,
// wider only through zext/concat for hints), a constant folder / light simplifier, and an
// SMT-LIB2 printer that emits one define-fun per shared node.
package smt

import (
	"fmt"
	"math/bits"
	"strconv"
	"strings"
)

type Op uint8

const (
	OpConst Op = iota // BV const or Bool const
	OpVar
	OpNot
	OpAnd
	OpOr
	OpIte
	OpEq
	OpAdd
	OpSub
	OpMul
	OpUDiv
	OpURem
	OpSDiv
	OpSRem
	OpBAnd
	OpBOr
	OpBXor
	OpBNot
	OpNeg
	OpShl
	OpLShr
	OpAShr
	OpConcat
	OpExtract // hi, lo in A,B
	OpZExt    // to width W
	OpSExt
	OpUlt
	OpUle
	OpSlt
	OpSle
)

var opName = map[Op]string{
	OpNot: "not", OpAnd: "and", OpOr: "or", OpIte: "ite", OpEq: "=",
	OpAdd: "bvadd", OpSub: "bvsub", OpMul: "bvmul", OpUDiv: "bvudiv", OpURem: "bvurem",
	OpSDiv: "bvsdiv", OpSRem: "bvsrem", OpBAnd: "bvand", OpBOr: "bvor", OpBXor: "bvxor",
	OpBNot: "bvnot", OpNeg: "bvneg", OpShl: "bvshl", OpLShr: "bvlshr", OpAShr: "bvashr",
	OpConcat: "concat", OpUlt: "bvult", OpUle: "bvule", OpSlt: "bvslt", OpSle: "bvsle",
}

// Node is an immutable term. W==0 means Bool.
type Node struct {
	Op   Op
	W    int // bit width; 0 = Bool
	Args []*Node
	Val  uint64 // const value (masked) / for Bool const 0|1
	A, B int    // extract hi/lo
	Name string // var name
	ID   int
}

type Term = *Node

// Ctx owns the hash-cons table. Not safe for concurrent use.
type Ctx struct {
	tab    map[string]*Node
	nodes  []*Node
	True   *Node
	False  *Node
	nfresh int
	Vars   []*Node
}

func NewCtx() *Ctx {
	c := &Ctx{tab: map[string]*Node{}}
	c.True = c.mk(&Node{Op: OpConst, W: 0, Val: 1})
	c.False = c.mk(&Node{Op: OpConst, W: 0, Val: 0})
	return c
}

func (c *Ctx) NumNodes() int { return len(c.nodes) }

func key(n *Node) string {
	var sb strings.Builder
	sb.WriteByte(byte(n.Op) + 'A')
	sb.WriteString(strconv.Itoa(n.W))
	switch n.Op {
	case OpConst:
		sb.WriteByte(':')
		sb.WriteString(strconv.FormatUint(n.Val, 16))
	case OpVar:
		sb.WriteByte(':')
		sb.WriteString(n.Name)
	case OpExtract:
		sb.WriteByte(':')
		sb.WriteString(strconv.Itoa(n.A))
		sb.WriteByte(',')
		sb.WriteString(strconv.Itoa(n.B))
	}
	for _, a := range n.Args {
		sb.WriteByte(' ')
		sb.WriteString(strconv.Itoa(a.ID))
	}
	return sb.String()
}

func (c *Ctx) mk(n *Node) *Node {
	k := key(n)
	if o, ok := c.tab[k]; ok {
		return o
	}
	n.ID = len(c.nodes)
	c.nodes = append(c.nodes, n)
	c.tab[k] = n
	if n.Op == OpVar {
		c.Vars = append(c.Vars, n)
	}
	return n
}

func mask(w int) uint64 {
	if w >= 64 {
		return ^uint64(0)
	}
	return (uint64(1) << uint(w)) - 1
}

func (n *Node) IsConst() bool { return n.Op == OpConst }
func (n *Node) IsBool() bool  { return n.W == 0 }
func (n *Node) IsTrue() bool  { return n.Op == OpConst && n.W == 0 && n.Val == 1 }
func (n *Node) IsFalse() bool { return n.Op == OpConst && n.W == 0 && n.Val == 0 }

// SVal returns the constant as a sign-extended int64.
func (n *Node) SVal() int64 {
	if n.W >= 64 {
		return int64(n.Val)
	}
	sh := uint(64 - n.W)
	return int64(n.Val<<sh) >> sh
}

func (c *Ctx) BV(v uint64, w int) *Node {
	if w <= 0 || w > 64 {
		panic(fmt.Sprintf("BV width %d", w))
	}
	return c.mk(&Node{Op: OpConst, W: w, Val: v & mask(w)})
}

func (c *Ctx) Bool(b bool) *Node {
	if b {
		return c.True
	}
	return c.False
}

func (c *Ctx) Var(name string, w int) *Node {
	return c.mk(&Node{Op: OpVar, W: w, Name: name})
}

func (c *Ctx) Fresh(prefix string, w int) *Node {
	c.nfresh++
	return c.Var(fmt.Sprintf("%s!%d", prefix, c.nfresh), w)
}

func (c *Ctx) Not(a *Node) *Node {
	if a.W != 0 {
		panic("Not on non-bool")
	}
	if a.IsConst() {
		return c.Bool(a.Val == 0)
	}
	if a.Op == OpNot {
		return a.Args[0]
	}
	return c.mk(&Node{Op: OpNot, Args: []*Node{a}})
}

func (c *Ctx) And(as ...*Node) *Node {
	var out []*Node
	seen := map[int]bool{}
	for _, a := range as {
		if a.W != 0 {
			panic("And on non-bool")
		}
		if a.IsFalse() {
			return c.False
		}
		if a.IsTrue() {
			continue
		}
		if a.Op == OpAnd {
			for _, x := range a.Args {
				if !seen[x.ID] {
					seen[x.ID] = true
					out = append(out, x)
				}
			}
			continue
		}
		if !seen[a.ID] {
			seen[a.ID] = true
			out = append(out, a)
		}
	}
	for _, a := range out {
		if a.Op == OpNot && seen[a.Args[0].ID] {
			return c.False
		}
	}
	if len(out) == 0 {
		return c.True
	}
	if len(out) == 1 {
		return out[0]
	}
	return c.mk(&Node{Op: OpAnd, Args: out})
}

func (c *Ctx) Or(as ...*Node) *Node {
	var out []*Node
	seen := map[int]bool{}
	for _, a := range as {
		if a.W != 0 {
			panic("Or on non-bool")
		}
		if a.IsTrue() {
			return c.True
		}
		if a.IsFalse() {
			continue
		}
		if a.Op == OpOr {
			for _, x := range a.Args {
				if !seen[x.ID] {
					seen[x.ID] = true
					out = append(out, x)
				}
			}
			continue
		}
		if !seen[a.ID] {
			seen[a.ID] = true
			out = append(out, a)
		}
	}
	for _, a := range out {
		if a.Op == OpNot && seen[a.Args[0].ID] {
			return c.True
		}
	}
	if len(out) == 0 {
		return c.False
	}
	if len(out) == 1 {
		return out[0]
	}
	return c.mk(&Node{Op: OpOr, Args: out})
}

func (c *Ctx) Implies(a, b *Node) *Node { return c.Or(c.Not(a), b) }

func (c *Ctx) Ite(g, a, b *Node) *Node {
	if g.W != 0 {
		panic("Ite guard non-bool")
	}
	if a.W != b.W {
		panic(fmt.Sprintf("Ite width mismatch %d vs %d", a.W, b.W))
	}
	if g.IsTrue() {
		return a
	}
	if g.IsFalse() {
		return b
	}
	if a == b {
		return a
	}
	if a.W == 0 {
		if a.IsTrue() && b.IsFalse() {
			return g
		}
		if a.IsFalse() && b.IsTrue() {
			return c.Not(g)
		}
		if a.IsTrue() {
			return c.Or(g, b)
		}
		if a.IsFalse() {
			return c.And(c.Not(g), b)
		}
		if b.IsTrue() {
			return c.Or(c.Not(g), a)
		}
		if b.IsFalse() {
			return c.And(g, a)
		}
	}
	if g.Op == OpNot {
		return c.Ite(g.Args[0], b, a)
	}
	// ite(g, x, ite(g, y, z)) = ite(g, x, z)
	if b.Op == OpIte && b.Args[0] == g {
		return c.Ite(g, a, b.Args[2])
	}
	if a.Op == OpIte && a.Args[0] == g {
		return c.Ite(g, a.Args[1], b)
	}
	return c.mk(&Node{Op: OpIte, W: a.W, Args: []*Node{g, a, b}})
}

func (c *Ctx) Eq(a, b *Node) *Node {
	if a.W != b.W {
		panic(fmt.Sprintf("Eq width mismatch %d vs %d", a.W, b.W))
	}
	if a == b {
		return c.True
	}
	if a.IsConst() && b.IsConst() {
		return c.Bool(a.Val == b.Val)
	}
	if a.W == 0 {
		if a.IsConst() {
			a, b = b, a
		}
		if b.IsTrue() {
			return a
		}
		if b.IsFalse() {
			return c.Not(a)
		}
	}
	// eq(ite(g, c1, c2), c3) with constants folds
	if b.IsConst() && a.Op == OpIte {
		x, y := a.Args[1], a.Args[2]
		if x.IsConst() || y.IsConst() {
			return c.Ite(a.Args[0], c.Eq(x, b), c.Eq(y, b))
		}
	}
	if a.IsConst() && b.Op == OpIte {
		return c.Eq(b, a)
	}
	if a.IsConst() && !b.IsConst() {
		a, b = b, a
	}
	if b.IsConst() {
		switch a.Op {
		case OpAdd:
			// x + c1 == c2  <=>  x == c2 - c1
			if a.Args[1].IsConst() {
				return c.Eq(a.Args[0], c.BV(b.Val-a.Args[1].Val, a.W))
			}
		case OpZExt:
			inner := a.Args[0]
			if inner.W <= 64 {
				if b.Val > mask(inner.W) {
					return c.False
				}
				return c.Eq(inner, c.BV(b.Val, inner.W))
			}
		case OpConcat:
			hi, lo := a.Args[0], a.Args[1]
			if a.W <= 64 {
				return c.And(c.Eq(hi, c.BV(b.Val>>uint(lo.W), hi.W)), c.Eq(lo, c.BV(b.Val, lo.W)))
			}
		}
	}
	if a.ID > b.ID {
		a, b = b, a
	}
	return c.mk(&Node{Op: OpEq, Args: []*Node{a, b}})
}

func (c *Ctx) Ne(a, b *Node) *Node { return c.Not(c.Eq(a, b)) }

func (c *Ctx) bin(op Op, a, b *Node) *Node {
	if a.W != b.W || a.W == 0 {
		panic(fmt.Sprintf("bin %s width mismatch %d vs %d", opName[op], a.W, b.W))
	}
	w := a.W
	if a.IsConst() && b.IsConst() && w <= 64 {
		x, y := a.Val, b.Val
		m := mask(w)
		switch op {
		case OpAdd:
			return c.BV(x+y, w)
		case OpSub:
			return c.BV(x-y, w)
		case OpMul:
			return c.BV(x*y, w)
		case OpUDiv:
			if y == 0 {
				return c.BV(m, w)
			}
			return c.BV(x/y, w)
		case OpURem:
			if y == 0 {
				return c.BV(x, w)
			}
			return c.BV(x%y, w)
		case OpSDiv:
			sx, sy := a.SVal(), b.SVal()
			if sy == 0 {
				if sx >= 0 {
					return c.BV(m, w)
				}
				return c.BV(1, w)
			}
			if sy == -1 {
				return c.BV(uint64(-sx), w)
			}
			return c.BV(uint64(sx/sy), w)
		case OpSRem:
			sx, sy := a.SVal(), b.SVal()
			if sy == 0 {
				return c.BV(x, w)
			}
			if sy == -1 {
				return c.BV(0, w)
			}
			return c.BV(uint64(sx%sy), w)
		case OpBAnd:
			return c.BV(x&y, w)
		case OpBOr:
			return c.BV(x|y, w)
		case OpBXor:
			return c.BV(x^y, w)
		case OpShl:
			if y >= uint64(w) {
				return c.BV(0, w)
			}
			return c.BV(x<<y, w)
		case OpLShr:
			if y >= uint64(w) {
				return c.BV(0, w)
			}
			return c.BV(x>>y, w)
		case OpAShr:
			sx := a.SVal()
			if y >= uint64(w) {
				y = uint64(w - 1)
			}
			return c.BV(uint64(sx>>y), w)
		}
	}
	// identities
	switch op {
	case OpAdd:
		if a.IsConst() {
			a, b = b, a
		}
		if b.IsConst() && b.Val == 0 {
			return a
		}
		// (x + c1) + c2
		if b.IsConst() && a.Op == OpAdd && a.Args[1].IsConst() {
			return c.bin(OpAdd, a.Args[0], c.BV(a.Args[1].Val+b.Val, w))
		}
		if b.IsConst() && a.Op == OpIte && a.Args[1].IsConst() && a.Args[2].IsConst() {
			return c.Ite(a.Args[0], c.bin(OpAdd, a.Args[1], b), c.bin(OpAdd, a.Args[2], b))
		}
	case OpSub:
		if b.IsConst() {
			return c.bin(OpAdd, a, c.BV(-b.Val, w))
		}
		if a == b {
			return c.BV(0, w)
		}
	case OpMul:
		if a.IsConst() {
			a, b = b, a
		}
		if b.IsConst() {
			if b.Val == 0 {
				return b
			}
			if b.Val == 1 {
				return a
			}
			if a.Op == OpIte && a.Args[1].IsConst() && a.Args[2].IsConst() {
				return c.Ite(a.Args[0], c.bin(OpMul, a.Args[1], b), c.bin(OpMul, a.Args[2], b))
			}
		}
	case OpBAnd:
		if a.IsConst() {
			a, b = b, a
		}
		if b.IsConst() {
			if b.Val == 0 {
				return b
			}
			if b.Val == mask(w) {
				return a
			}
		}
		if a == b {
			return a
		}
	case OpBOr:
		if a.IsConst() {
			a, b = b, a
		}
		if b.IsConst() {
			if b.Val == 0 {
				return a
			}
			if b.Val == mask(w) {
				return b
			}
		}
		if a == b {
			return a
		}
	case OpBXor:
		if a.IsConst() {
			a, b = b, a
		}
		if b.IsConst() && b.Val == 0 {
			return a
		}
		if a == b {
			return c.BV(0, w)
		}
	case OpShl, OpLShr, OpAShr:
		if b.IsConst() && b.Val == 0 {
			return a
		}
	case OpUDiv:
		if b.IsConst() && b.Val == 1 {
			return a
		}
	}
	if (op == OpUDiv || op == OpURem || op == OpSDiv || op == OpSRem) && a.Op == OpIte && b.IsConst() && a.Args[1].IsConst() && a.Args[2].IsConst() {
		return c.Ite(a.Args[0], c.bin(op, a.Args[1], b), c.bin(op, a.Args[2], b))
	}
	return c.mk(&Node{Op: op, W: w, Args: []*Node{a, b}})
}

func (c *Ctx) Add(a, b *Node) *Node  { return c.bin(OpAdd, a, b) }
func (c *Ctx) Sub(a, b *Node) *Node  { return c.bin(OpSub, a, b) }
func (c *Ctx) Mul(a, b *Node) *Node  { return c.bin(OpMul, a, b) }
func (c *Ctx) UDiv(a, b *Node) *Node { return c.bin(OpUDiv, a, b) }
func (c *Ctx) URem(a, b *Node) *Node { return c.bin(OpURem, a, b) }
func (c *Ctx) SDiv(a, b *Node) *Node { return c.bin(OpSDiv, a, b) }
func (c *Ctx) SRem(a, b *Node) *Node { return c.bin(OpSRem, a, b) }
func (c *Ctx) BAnd(a, b *Node) *Node { return c.bin(OpBAnd, a, b) }
func (c *Ctx) BOr(a, b *Node) *Node  { return c.bin(OpBOr, a, b) }
func (c *Ctx) BXor(a, b *Node) *Node { return c.bin(OpBXor, a, b) }
func (c *Ctx) Shl(a, b *Node) *Node  { return c.bin(OpShl, a, b) }
func (c *Ctx) LShr(a, b *Node) *Node { return c.bin(OpLShr, a, b) }
func (c *Ctx) AShr(a, b *Node) *Node { return c.bin(OpAShr, a, b) }

func (c *Ctx) BNot(a *Node) *Node {
	if a.IsConst() {
		return c.BV(^a.Val, a.W)
	}
	if a.Op == OpBNot {
		return a.Args[0]
	}
	return c.mk(&Node{Op: OpBNot, W: a.W, Args: []*Node{a}})
}

func (c *Ctx) Neg(a *Node) *Node {
	if a.IsConst() {
		return c.BV(-a.Val, a.W)
	}
	return c.mk(&Node{Op: OpNeg, W: a.W, Args: []*Node{a}})
}

func (c *Ctx) cmp(op Op, a, b *Node) *Node {
	if a.W != b.W || a.W == 0 {
		panic(fmt.Sprintf("cmp %s width mismatch %d vs %d", opName[op], a.W, b.W))
	}
	if a.IsConst() && b.IsConst() {
		switch op {
		case OpUlt:
			return c.Bool(a.Val < b.Val)
		case OpUle:
			return c.Bool(a.Val <= b.Val)
		case OpSlt:
			return c.Bool(a.SVal() < b.SVal())
		case OpSle:
			return c.Bool(a.SVal() <= b.SVal())
		}
	}
	if a == b {
		return c.Bool(op == OpUle || op == OpSle)
	}
	if op == OpUlt && b.IsConst() && b.Val == 0 {
		return c.False
	}
	if op == OpUle && a.IsConst() && a.Val == 0 {
		return c.True
	}
	// push comparisons with a constant through ite-of-constants
	if b.IsConst() && a.Op == OpIte && (a.Args[1].IsConst() || a.Args[2].IsConst()) {
		return c.Ite(a.Args[0], c.cmp(op, a.Args[1], b), c.cmp(op, a.Args[2], b))
	}
	if a.IsConst() && b.Op == OpIte && (b.Args[1].IsConst() || b.Args[2].IsConst()) {
		return c.Ite(b.Args[0], c.cmp(op, a, b.Args[1]), c.cmp(op, a, b.Args[2]))
	}
	return c.mk(&Node{Op: op, Args: []*Node{a, b}})
}

func (c *Ctx) Ult(a, b *Node) *Node { return c.cmp(OpUlt, a, b) }
func (c *Ctx) Ule(a, b *Node) *Node { return c.cmp(OpUle, a, b) }
func (c *Ctx) Slt(a, b *Node) *Node { return c.cmp(OpSlt, a, b) }
func (c *Ctx) Sle(a, b *Node) *Node { return c.cmp(OpSle, a, b) }
func (c *Ctx) Ugt(a, b *Node) *Node { return c.cmp(OpUlt, b, a) }
func (c *Ctx) Uge(a, b *Node) *Node { return c.cmp(OpUle, b, a) }
func (c *Ctx) Sgt(a, b *Node) *Node { return c.cmp(OpSlt, b, a) }
func (c *Ctx) Sge(a, b *Node) *Node { return c.cmp(OpSle, b, a) }

func (c *Ctx) Extract(a *Node, hi, lo int) *Node {
	if hi < lo || hi >= a.W || lo < 0 {
		panic(fmt.Sprintf("extract [%d:%d] of width %d", hi, lo, a.W))
	}
	w := hi - lo + 1
	if w == a.W {
		return a
	}
	if a.IsConst() && a.W <= 64 {
		return c.BV(a.Val>>uint(lo), w)
	}
	switch a.Op {
	case OpExtract:
		return c.Extract(a.Args[0], a.B+hi, a.B+lo)
	case OpConcat:
		lowW := a.Args[1].W
		if hi < lowW {
			return c.Extract(a.Args[1], hi, lo)
		}
		if lo >= lowW {
			return c.Extract(a.Args[0], hi-lowW, lo-lowW)
		}
	case OpZExt:
		inner := a.Args[0]
		if hi < inner.W {
			return c.Extract(inner, hi, lo)
		}
		if lo >= inner.W {
			return c.BV(0, w)
		}
	case OpSExt:
		inner := a.Args[0]
		if hi < inner.W {
			return c.Extract(inner, hi, lo)
		}
	case OpIte:
		if a.Args[1].IsConst() || a.Args[2].IsConst() {
			return c.Ite(a.Args[0], c.Extract(a.Args[1], hi, lo), c.Extract(a.Args[2], hi, lo))
		}
	case OpBAnd, OpBOr, OpBXor:
		if lo == 0 || true {
			// bitwise ops commute with extract
			return c.bin(a.Op, c.Extract(a.Args[0], hi, lo), c.Extract(a.Args[1], hi, lo))
		}
	case OpAdd, OpSub, OpMul:
		if lo == 0 {
			return c.bin(a.Op, c.Extract(a.Args[0], hi, 0), c.Extract(a.Args[1], hi, 0))
		}
	}
	return c.mk(&Node{Op: OpExtract, W: w, A: hi, B: lo, Args: []*Node{a}})
}

func (c *Ctx) Concat(hi, lo *Node) *Node {
	w := hi.W + lo.W
	if hi.IsConst() && lo.IsConst() && w <= 64 {
		return c.BV(hi.Val<<uint(lo.W)|lo.Val, w)
	}
	// concat(extract(x, h, m+1), extract(x, m, l)) = extract(x, h, l)
	if hi.Op == OpExtract && lo.Op == OpExtract && hi.Args[0] == lo.Args[0] && hi.B == lo.A+1 {
		return c.Extract(hi.Args[0], hi.A, lo.B)
	}
	if hi.IsConst() && hi.Val == 0 && w <= 64 {
		return c.ZExt(lo, w)
	}
	return c.mk(&Node{Op: OpConcat, W: w, Args: []*Node{hi, lo}})
}

func (c *Ctx) ZExt(a *Node, w int) *Node {
	if w == a.W {
		return a
	}
	if w < a.W {
		panic("zext to smaller")
	}
	if a.IsConst() && w <= 64 {
		return c.BV(a.Val, w)
	}
	if a.Op == OpZExt {
		return c.ZExt(a.Args[0], w)
	}
	if a.Op == OpIte && a.Args[1].IsConst() && a.Args[2].IsConst() && w <= 64 {
		return c.Ite(a.Args[0], c.ZExt(a.Args[1], w), c.ZExt(a.Args[2], w))
	}
	return c.mk(&Node{Op: OpZExt, W: w, Args: []*Node{a}})
}

func (c *Ctx) SExt(a *Node, w int) *Node {
	if w == a.W {
		return a
	}
	if w < a.W {
		panic("sext to smaller")
	}
	if a.IsConst() && w <= 64 {
		return c.BV(uint64(a.SVal()), w)
	}
	if a.Op == OpIte && a.Args[1].IsConst() && a.Args[2].IsConst() && w <= 64 {
		return c.Ite(a.Args[0], c.SExt(a.Args[1], w), c.SExt(a.Args[2], w))
	}
	if a.Op == OpZExt {
		// sext(zext(x)) with room = zext
		return c.ZExt(a.Args[0], w)
	}
	return c.mk(&Node{Op: OpSExt, W: w, Args: []*Node{a}})
}

// Resize converts a BV to width w, zero- or sign-extending / truncating.
func (c *Ctx) Resize(a *Node, w int, signed bool) *Node {
	if a.W == w {
		return a
	}
	if a.W > w {
		return c.Extract(a, w-1, 0)
	}
	if signed {
		return c.SExt(a, w)
	}
	return c.ZExt(a, w)
}

func SortStr(w int) string {
	if w == 0 {
		return "Bool"
	}
	return fmt.Sprintf("(_ BitVec %d)", w)
}

func constStr(n *Node) string {
	if n.W == 0 {
		if n.Val == 1 {
			return "true"
		}
		return "false"
	}
	if n.W%4 == 0 {
		return fmt.Sprintf("#x%0*x", n.W/4, n.Val)
	}
	return fmt.Sprintf("#b%0*b", n.W, n.Val)
}

func VarSym(name string) string { return "|" + name + "|" }

// Ref gives the SMT-LIB reference for a node assuming non-leaf nodes are defined as n<ID>.
func Ref(n *Node) string {
	switch n.Op {
	case OpConst:
		return constStr(n)
	case OpVar:
		return VarSym(n.Name)
	}
	return "n" + strconv.Itoa(n.ID)
}

// Body renders the defining expression of a non-leaf node with references to its arguments.
func Body(n *Node) string {
	var sb strings.Builder
	switch n.Op {
	case OpExtract:
		fmt.Fprintf(&sb, "((_ extract %d %d) %s)", n.A, n.B, Ref(n.Args[0]))
	case OpZExt:
		fmt.Fprintf(&sb, "((_ zero_extend %d) %s)", n.W-n.Args[0].W, Ref(n.Args[0]))
	case OpSExt:
		fmt.Fprintf(&sb, "((_ sign_extend %d) %s)", n.W-n.Args[0].W, Ref(n.Args[0]))
	default:
		sb.WriteByte('(')
		sb.WriteString(opName[n.Op])
		for _, a := range n.Args {
			sb.WriteByte(' ')
			sb.WriteString(Ref(a))
		}
		sb.WriteByte(')')
	}
	return sb.String()
}

// TopoFrom appends to out every non-leaf node reachable from roots that is not yet in done,
// in dependency order, and every variable not yet in done to vars.
func TopoFrom(roots []*Node, done map[int]bool, out *[]*Node, vars *[]*Node) {
	type fr struct {
		n *Node
		i int
	}
	var stack []fr
	for _, r := range roots {
		if done[r.ID] {
			continue
		}
		stack = append(stack, fr{r, 0})
		for len(stack) > 0 {
			top := &stack[len(stack)-1]
			if done[top.n.ID] {
				stack = stack[:len(stack)-1]
				continue
			}
			if top.i < len(top.n.Args) {
				a := top.n.Args[top.i]
				top.i++
				if !done[a.ID] {
					stack = append(stack, fr{a, 0})
				}
				continue
			}
			done[top.n.ID] = true
			switch top.n.Op {
			case OpConst:
			case OpVar:
				*vars = append(*vars, top.n)
			default:
				*out = append(*out, top.n)
			}
			stack = stack[:len(stack)-1]
		}
	}
}

// Eval evaluates a term under an assignment of variables (by name). Missing vars are 0.
func Eval(n *Node, env map[string]uint64, memo map[int]uint64) uint64 {
	if v, ok := memo[n.ID]; ok {
		return v
	}
	var r uint64
	arg := func(i int) uint64 { return Eval(n.Args[i], env, memo) }
	sval := func(v uint64, w int) int64 {
		if w >= 64 {
			return int64(v)
		}
		sh := uint(64 - w)
		return int64(v<<sh) >> sh
	}
	b2u := func(b bool) uint64 {
		if b {
			return 1
		}
		return 0
	}
	w := n.W
	switch n.Op {
	case OpConst:
		r = n.Val
	case OpVar:
		r = env[n.Name] & mask(maxi(w, 1))
	case OpNot:
		r = 1 - arg(0)
	case OpAnd:
		r = 1
		for i := range n.Args {
			if arg(i) == 0 {
				r = 0
				break
			}
		}
	case OpOr:
		r = 0
		for i := range n.Args {
			if arg(i) == 1 {
				r = 1
				break
			}
		}
	case OpIte:
		if arg(0) == 1 {
			r = arg(1)
		} else {
			r = arg(2)
		}
	case OpEq:
		r = b2u(arg(0) == arg(1))
	case OpAdd:
		r = arg(0) + arg(1)
	case OpSub:
		r = arg(0) - arg(1)
	case OpMul:
		r = arg(0) * arg(1)
	case OpUDiv:
		if arg(1) == 0 {
			r = mask(w)
		} else {
			r = arg(0) / arg(1)
		}
	case OpURem:
		if arg(1) == 0 {
			r = arg(0)
		} else {
			r = arg(0) % arg(1)
		}
	case OpSDiv:
		x, y := sval(arg(0), w), sval(arg(1), w)
		if y == 0 {
			if x >= 0 {
				r = mask(w)
			} else {
				r = 1
			}
		} else if y == -1 {
			r = uint64(-x)
		} else {
			r = uint64(x / y)
		}
	case OpSRem:
		x, y := sval(arg(0), w), sval(arg(1), w)
		if y == 0 {
			r = uint64(x)
		} else if y == -1 {
			r = 0
		} else {
			r = uint64(x % y)
		}
	case OpBAnd:
		r = arg(0) & arg(1)
	case OpBOr:
		r = arg(0) | arg(1)
	case OpBXor:
		r = arg(0) ^ arg(1)
	case OpBNot:
		r = ^arg(0)
	case OpNeg:
		r = -arg(0)
	case OpShl:
		if arg(1) >= uint64(w) {
			r = 0
		} else {
			r = arg(0) << arg(1)
		}
	case OpLShr:
		if arg(1) >= uint64(w) {
			r = 0
		} else {
			r = arg(0) >> arg(1)
		}
	case OpAShr:
		s := arg(1)
		if s >= uint64(w) {
			s = uint64(w - 1)
		}
		r = uint64(sval(arg(0), w) >> s)
	case OpConcat:
		if w > 64 {
			panic("eval concat > 64")
		}
		r = arg(0)<<uint(n.Args[1].W) | arg(1)
	case OpExtract:
		if n.Args[0].W > 64 {
			panic("eval extract > 64")
		}
		r = arg(0) >> uint(n.B)
	case OpZExt:
		r = arg(0)
	case OpSExt:
		r = uint64(sval(arg(0), n.Args[0].W))
	case OpUlt:
		r = b2u(arg(0) < arg(1))
	case OpUle:
		r = b2u(arg(0) <= arg(1))
	case OpSlt:
		r = b2u(sval(arg(0), n.Args[0].W) < sval(arg(1), n.Args[0].W))
	case OpSle:
		r = b2u(sval(arg(0), n.Args[0].W) <= sval(arg(1), n.Args[0].W))
	}
	if w > 0 && w < 64 {
		r &= mask(w)
	}
	memo[n.ID] = r
	return r
}

func maxi(a, b int) int {
	if a > b {
		return a
	}
	return b
}

var _ = bits.Len
